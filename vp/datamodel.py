"""Shared by C03 / C15: refinement of DataModel.tla's leaf classes to concrete
members, the independent decoders (Python json strict, PyYAML scanner/parser with
the YAML 1.2 core schema, tomllib), comparison of a decoded document with the
document the specification predicts, and cfg generation for TLC.

Nothing here knows what a converter should do: predictions come from TLC."""
import json
import math
import os
import random
import re
import struct
import zlib
from fractions import Fraction

from . import common as C

I64_MAX = 2 ** 63 - 1
I64_MIN = -2 ** 63

# ---------------------------------------------------------------------------
# refinement tables (DESIGN 3.6): class -> concrete members.  Soundness: the
# specification only uses class membership (F64Exact, Finite, "blankend" = ends in
# a blank line, "ovf" = float spelling beyond f64) -- every member has the
# property its class stands for.
# ---------------------------------------------------------------------------
INT = {
    "zero": [0],
    "pos": [1, 7, 42, 255, 65536, 2 ** 31, 2 ** 53, 10 ** 15, 123456789],
    "neg": [-1, -3, -128, -65537, -2 ** 31 - 1, -2 ** 53, -999999999999],
    "p53": [2 ** 53 + 1, -(2 ** 53 + 1), 2 ** 62 + 1, I64_MAX - 1, 2 ** 53 + 3, -(2 ** 60 + 7)],
    "max": [I64_MAX],
    "min": [I64_MIN],
}
FLOAT = {
    "fzero": [0.0, -0.0],
    "f15": [1.5, 0.5, 3.25, 1234.5, 1.0, 100.0],
    "fm225": [-2.25, -0.75, -1024.125, -1.0],
    "f1e20": [1e20, 1e22, 1.5e300, float(2 ** 63), 1e15, 1.7976931348623157e308, -1e20],
    "f2m30": [2.0 ** -30, 0.1, 1e-7, 5e-324, 2.2250738585072014e-308, 1.0 / 3.0, -1e-9, 3.14],
    "inf": [float("inf")],
    "ninf": [float("-inf")],
    "nan": [float("nan")],
}
STR = {
    "empty": [""],
    "plain": ["a", "hello", "foo_bar", "Hello World", "x-1", "CamelCase", "v1.2.3"],
    "true": ["true", "false", "True", "FALSE", "yes", "no", "on", "off", "y", "N"],
    "one": ["1", "0", "-1", "+1", "1.5", "1e3", "0x1f", "0o17", "007", "1_000", ".5", "1.",
            ".inf", ".nan", "-.INF", "12:30", "2001-01-01", "9223372036854775808", "0b11",
            "1979-05-27T07:32:00Z", "inf", "nan"],
    "tilde": ["~", "null", "Null", "NULL", "nil"],
    "colon": ["a: b", "- a", "a #b", "#c", "[a]", "{a: b}", "? a", "&a", "*a", "!t", "|", ">",
              "@a", "`a", "%a", "a:", ": a", "---", "...", "a, b", " lead", "trail ", "a = b",
              "[t]", "[[t]]", "a.b", "k = 'v'", "<<", "=", "-", "--- x", "a:b"],
    "multi": ["x\ny", "x\ny\n", "line1\n  indented\nline3", "a\n\nb", "\tb\nc", "a\r\nb",
              " a\nb", "a\n b\n", "k: v\n- i\n", " \n\n", "x\n#y\n", "a\n---\nb\n", "\nlead", "a\n\n\nb\n"],
    "blankend": ["a\n\n", "\n", "\n\n", "x\ny\n\n", "k: v\n\n"],
    "quotes": ["\"", "'", "''", "'''", "\"\"\"", "it's", "say \"hi\"", "'q'", "\"q\"", "a'''b",
               "\\", "a\\nb", "\\\"", "C:\\dir", "'''\n", "a\"\"\"b\nc", "\\u0041"],
    "ctrl": ["\x01", "a\x00b", "\x7f", "\x1b[0m", "\t", "a\tb", "\r", "\x85", "\u2028", "\ufeff",
             "\x0c", "\x08", "a\x1fb\n", "\u2029x", "\x9f"],
    "uni": ["\u00e9", "\u65e5\u672c\u8a9e", "\U0001F600", "\u043a\u043b\u044e\u0447", "a\u0301",
            "\U0010ffff", "\ud7ff", "\ufffd", "\u00df\u2192\u2211", "\u00e9\n\u00e8"],
    "ovf": ["1e400", "-1e999", "1.7976931348623157e309"],
}
KEY = {
    "ident": ["a", "foo_bar", "x1", "Key-2", "name", "B"],
    "quote": ["a b", "a.b", "a:b", "", "a=b", "a\"b", "a'b", "#x", "[x]", "a\nb", "true", "k\\n",
              "a: b", "- x", "~", " k", "null"],
    "numeric": ["1", "007", "1.5", "-1", "1e3", "0x10", "+2", "0"],
    "uni": ["\u00e9", "\u65e5\u672c", "\U0001F600k", "\u043a\u043b\u044e\u0447", "\u00df"],
}


def check_tables():
    for ic, ms in INT.items():
        for m in ms:
            assert I64_MIN <= m <= I64_MAX
            exact = int(float(m)) == m if abs(m) < 2 ** 63 else float(m) == -2.0 ** 63 and m == I64_MIN
            assert exact == (ic in ("zero", "pos", "neg", "min")), (ic, m)
    for fc, ms in FLOAT.items():
        for m in ms:
            assert math.isfinite(m) == (fc not in ("inf", "ninf", "nan"))
    for s in STR["blankend"]:
        assert s.endswith("\n\n") or s.strip("\n") == ""
    for s in STR["ovf"]:
        assert math.isinf(float(s))
    for a in KEY:
        for b in KEY:
            if a < b:
                assert not set(KEY[a]) & set(KEY[b])


def fbits(x):
    return "%016x" % struct.unpack(">Q", struct.pack(">d", x))[0]


def bits_to_float(b):
    return struct.unpack(">d", struct.pack(">Q", int(b, 16)))[0]


def case_id(obj):
    return zlib.crc32(json.dumps(obj, sort_keys=True).encode())


class Refiner:
    """path (tuple of 1-based child indexes) -> concrete member, per case and seed."""

    def __init__(self, seed, cid):
        self.seed = seed
        self.cid = cid

    def _pick(self, kind, cls, path, pool):
        ms = pool[cls]
        r = random.Random("%d:%d:%s:%s:%s" % (self.seed, self.cid, kind, cls, ",".join(map(str, path))))
        return ms[r.randrange(len(ms))]

    def int_(self, ic, path):
        return self._pick("i", ic, path, INT)

    def float_(self, fc, path):
        return self._pick("f", fc, path, FLOAT)

    def str_(self, sc, path):
        return self._pick("s", sc, path, STR)

    def key(self, kc, path):
        return self._pick("k", kc, path, KEY)


CONSTRAINTS = [
    {"t": "constraint", "arms": [{"a": "irange", "lo": [1], "hi": [5]}]},
    {"t": "constraint", "arms": [{"a": "exact", "val": {"t": "int", "i": 1}}]},
    {"t": "constraint", "arms": [{"a": "exact", "val": {"t": "str", "s": "x"}},
                                 {"a": "irange", "lo": [], "hi": [9]}]},
]


def refine_value(v, rf, path=()):
    """abstract value (DataModel.tla) -> harness Val json (Appendix B)."""
    t = v["t"]
    if t == "null":
        return {"t": "null"}
    if t == "bool":
        return {"t": "bool", "b": v["b"]}
    if t == "int":
        return {"t": "int", "i": rf.int_(v["ic"], path)}
    if t == "float":
        return {"t": "float", "bits": fbits(rf.float_(v["fc"], path))}
    if t == "str":
        return {"t": "str", "s": rf.str_(v["sc"], path)}
    if t == "constraint":
        r = random.Random("%d:%d:c:%s" % (rf.seed, rf.cid, path))
        return CONSTRAINTS[r.randrange(len(CONSTRAINTS))]
    if t == "list":
        return {"t": "list", "es": [refine_value(e, rf, path + (j + 1,)) for j, e in enumerate(v["es"])]}
    if t == "tuple":
        return {"t": "tuple", "fs": [{"nm": rf.key(f["kc"], path + (j + 1,)),
                                     "val": refine_value(f["val"], rf, path + (j + 1,))}
                                    for j, f in enumerate(v["fs"])]}
    raise C.ToolError("unknown abstract value %r" % (v,))


class Num:
    """A predicted number: exact rational, or a non-finite float."""
    __slots__ = ("q", "special", "lex")

    def __init__(self, q=None, special=None, lex="int"):
        self.q = q
        self.special = special
        self.lex = lex

    def __repr__(self):
        return "Num(%s)" % (self.special or self.q)


def refine_doc(d, rf):
    """abstract document -> concrete predicted document:
    None | bool | Num | str | list | dict"""
    k = d["d"]
    if k == "null":
        return None
    if k == "bool":
        return bool(d["b"])
    if k == "num":
        path = tuple(d["at"])
        if d["lex"] == "int":
            i = rf.int_(d["nc"], path)
            if d["via"] == "f64":
                return Num(Fraction(float(i)), lex="float")
            return Num(Fraction(i), lex="int")
        x = rf.float_(d["nc"], path)
        if math.isnan(x):
            return Num(special="nan", lex="float")
        if math.isinf(x):
            return Num(special="inf" if x > 0 else "-inf", lex="float")
        return Num(Fraction(x), lex="float")
    if k == "str":
        s = rf.str_(d["sc"], tuple(d["at"]))
        if d["via"] == "plusnl":
            return s + "\n"
        if d["via"] == "asfloat":
            x = float(s)
            return Num(special="inf" if x > 0 else "-inf", lex="float")
        return s
    if k == "arr":
        return [refine_doc(x, rf) for x in d["xs"]]
    if k == "obj":
        return {rf.key(m["kc"], tuple(m["at"])): refine_doc(m["dv"], rf) for m in d["ms"]}
    raise C.ToolError("unknown abstract document %r" % (d,))


def doc_mismatch(pred, obj, path="$"):
    """First difference between a predicted document and a decoded Python object,
    or None.  Same nesting, list order, key SET, identical strings, booleans and
    null identical, numbers equal as exact rationals."""
    if pred is None:
        return None if obj is None else "%s: expected null, got %s" % (path, short(obj))
    if isinstance(pred, bool):
        return None if (isinstance(obj, bool) and obj == pred) else \
            "%s: expected %s, got %s" % (path, pred, short(obj))
    if isinstance(pred, Num):
        if isinstance(obj, bool) or not isinstance(obj, (int, float)):
            return "%s: expected number %r, got %s" % (path, pred, short(obj))
        if pred.special:
            ok = isinstance(obj, float) and (
                (pred.special == "nan" and math.isnan(obj))
                or (pred.special == "inf" and obj == float("inf"))
                or (pred.special == "-inf" and obj == float("-inf")))
            return None if ok else "%s: expected %s, got %s" % (path, pred.special, short(obj))
        if isinstance(obj, float) and not math.isfinite(obj):
            return "%s: expected %s, got %s" % (path, pred.q, obj)
        return None if Fraction(obj) == pred.q else \
            "%s: number altered: expected %s, got %s" % (path, pred.q, repr(obj))
    if isinstance(pred, str):
        return None if (isinstance(obj, str) and obj == pred) else \
            "%s: expected string %r, got %s" % (path, pred, short(obj))
    if isinstance(pred, list):
        if not isinstance(obj, list):
            return "%s: expected array, got %s" % (path, short(obj))
        if len(obj) != len(pred):
            return "%s: expected %d items, got %d" % (path, len(pred), len(obj))
        for j, (p, o) in enumerate(zip(pred, obj)):
            m = doc_mismatch(p, o, "%s[%d]" % (path, j))
            if m:
                return m
        return None
    if isinstance(pred, dict):
        if not isinstance(obj, dict):
            return "%s: expected object, got %s" % (path, short(obj))
        if set(obj.keys()) != set(pred.keys()):
            return "%s: key set differs: expected %r, got %r" % (path, sorted(pred.keys()), sorted(map(repr, obj.keys())))
        for k2 in pred:
            m = doc_mismatch(pred[k2], obj[k2], "%s.%s" % (path, k2))
            if m:
                return m
        return None
    raise C.ToolError("bad predicted document %r" % (pred,))


def short(x):
    s = repr(x)
    return s if len(s) < 120 else s[:117] + "..."


def pred_to_json(p):
    if isinstance(p, Num):
        return {"num": p.special or str(p.q)}
    if isinstance(p, list):
        return [pred_to_json(x) for x in p]
    if isinstance(p, dict):
        return {"obj": [[k, pred_to_json(v)] for k, v in p.items()]}
    return p


# ---------------------------------------------------------------------------
# independent decoders
# ---------------------------------------------------------------------------

class Undecodable(Exception):
    pass


def _no_const(s):
    raise ValueError("not JSON: %s" % s)


def _no_dups(pairs):
    d = {}
    for k, v in pairs:
        if k in d:
            raise ValueError("duplicate key %r" % k)
        d[k] = v
    return d


def decode_json(b):
    try:
        return json.loads(b.decode("utf-8"), parse_constant=_no_const, object_pairs_hook=_no_dups)
    except Exception as e:
        raise Undecodable("json: %s" % str(e)[:200])


_yaml = None


def _yaml_mod():
    """PyYAML's pure-Python scanner/parser/composer (not the libyaml binding, whose
    code base ucg's serde_yaml is a translation of) with the YAML 1.2 core schema
    (what `serde_yaml` 0.9 writes and reads) instead of PyYAML's YAML 1.1 types."""
    global _yaml
    if _yaml is not None:
        return _yaml
    try:
        import yaml
    except ImportError:
        raise C.ToolError("PyYAML is not installed: the YAML legs cannot be decided")

    class UniqueKeyLoader(yaml.SafeLoader):
        def construct_mapping(self, node, deep=False):
            seen = set()
            for kn, _ in node.value:
                k = self.construct_object(kn, deep=True)
                try:
                    if k in seen:
                        raise yaml.constructor.ConstructorError(None, None, "duplicate key %r" % (k,), kn.start_mark)
                    seen.add(k)
                except TypeError:
                    raise yaml.constructor.ConstructorError(None, None, "unhashable key", kn.start_mark)
            return super().construct_mapping(node, deep)

    class Core12(UniqueKeyLoader):
        pass

    Core12.yaml_implicit_resolvers = {}

    def add(tag, rx, first):
        Core12.add_implicit_resolver(tag, re.compile(rx), first)

    add("tag:yaml.org,2002:bool", r"^(?:true|True|TRUE|false|False|FALSE)$", list("tTfF"))
    add("tag:yaml.org,2002:null", r"^(?:~|null|Null|NULL|)$", ["~", "n", "N", ""])
    add("tag:yaml.org,2002:int", r"^(?:[-+]?[0-9]+|0o[0-7]+|0x[0-9a-fA-F]+)$", list("-+0123456789"))
    add("tag:yaml.org,2002:float",
        r"^(?:[-+]?(?:\.[0-9]+|[0-9]+(?:\.[0-9]*)?)(?:[eE][-+]?[0-9]+)?|[-+]?\.(?:inf|Inf|INF)|\.(?:nan|NaN|NAN))$",
        list("-+0123456789."))

    def c_int(l, n):
        s = l.construct_scalar(n)
        if s.startswith("0o"):
            return int(s[2:], 8)
        if s.startswith("0x"):
            return int(s[2:], 16)
        return int(s)

    def c_float(l, n):
        s = l.construct_scalar(n).lower()
        if s.lstrip("+-") == ".inf":
            return float("-inf") if s[0] == "-" else float("inf")
        if s == ".nan":
            return float("nan")
        return float(s)

    def c_bool(l, n):
        return l.construct_scalar(n).lower() == "true"

    Core12.add_constructor("tag:yaml.org,2002:int", c_int)
    Core12.add_constructor("tag:yaml.org,2002:float", c_float)
    Core12.add_constructor("tag:yaml.org,2002:bool", c_bool)
    # no merge keys, no timestamps, no sets/omap/binary in the core schema: `<<` and
    # `=` stay strings because their resolvers are not registered above.

    def flatten_off(self, node):
        return None
    Core12.flatten_mapping = flatten_off

    _yaml = (yaml, Core12, UniqueKeyLoader)
    return _yaml


def decode_yaml_all(b, schema="core"):
    """-> list of documents.  schema 'core' = YAML 1.2 core schema, '1.1' = PyYAML's
    own YAML 1.1 types (safe_load_all)."""
    yaml, Core12, Unique = _yaml_mod()
    try:
        text = b.decode("utf-8")
        return list(yaml.load_all(text, Loader=Core12 if schema == "core" else Unique))
    except Exception as e:
        raise Undecodable("yaml: %s" % str(e).replace("\n", " ")[:200])


def decode_toml(b):
    import tomllib
    try:
        return tomllib.loads(b.decode("utf-8"))
    except Exception as e:
        raise Undecodable("toml: %s" % str(e)[:200])


def decode(fmt, b):
    """bytes -> list of decoded documents (yamlmulti: any number; else exactly one)."""
    if fmt == "json":
        return [decode_json(b)]
    if fmt in ("yaml", "yamlmulti"):
        return decode_yaml_all(b)
    if fmt == "toml":
        return [decode_toml(b)]
    raise C.ToolError("no decoder for %s" % fmt)


# ---------------------------------------------------------------------------
# TLC configurations
# ---------------------------------------------------------------------------
ALL_LEAVES = ["null", "true", "false", "i_zero", "i_pos", "i_neg", "i_p53", "i_max", "i_min",
              "f_fzero", "f_f15", "f_fm225", "f_f1e20", "f_f2m30", "f_inf", "f_ninf", "f_nan",
              "s_empty", "s_plain", "s_true", "s_one", "s_tilde", "s_colon", "s_multi", "s_blankend",
              "s_quotes", "s_ctrl", "s_uni", "s_ovf", "elist", "etuple", "con"]


def write_cfg(gd, name, depth, kids, nodes, rare, core, rare_pool, invariants):
    q = lambda xs: "{" + ", ".join('"%s"' % x for x in xs) + "}"
    with open(os.path.join(gd, name + ".cfg"), "w") as f:
        f.write("CONSTANTS\n  MaxDepth = %d\n  MaxKids = %d\n  MaxNodes = %d\n  MaxRare = %d\n"
                "  CoreLeaves = %s\n  RareLeaves = %s\n  Deviations = {}\n"
                "INIT Init\nNEXT Next\nCHECK_DEADLOCK FALSE\nINVARIANTS %s\n"
                % (depth, kids, nodes, rare, q(core), q(rare_pool), " ".join(invariants)))
    return name


def count_nodes(v):
    if v["t"] == "list":
        return 1 + sum(count_nodes(e) for e in v["es"])
    if v["t"] == "tuple":
        return 1 + sum(count_nodes(f["val"]) for f in v["fs"])
    return 1


def depth_of(v):
    if v["t"] == "list":
        return 1 + max([depth_of(e) for e in v["es"]] or [0])
    if v["t"] == "tuple":
        return 1 + max([depth_of(f["val"]) for f in v["fs"]] or [0])
    return 1
