"""C19 — the standard-library list, tuple and string helpers compute what they document.

Stdlib.tla holds the reference definitions (written from the helpers'
documentation) and a generator machine that enumerates calls; TLC checks the
algebraic laws of the property statement on every generated input and prints one
REPLAY line per call with the abstract arguments and the admissible outcomes.
This driver refines the abstract ids (list elements -> mixed-type values,
characters -> ASCII/Unicode characters, field names -> identifiers / quoted
names; seeded), renders `helper(args)` / module instantiations in the calling
conventions std/tests documents, binds ~200 calls per generated file that
imports std/*.ucg, builds the file with the harness op `build` (checker + VM,
strict) and compares every bound value with the prediction.  Calls predicted to
fail are built one per file; a batch that fails although every call in it was
predicted to build is bisected down to the failing calls.  A seeded sample of
the batch files also goes through the `ucg` binary (`out json`).

Python here only renders, refines and compares; every expected value comes from
the REPLAY line."""
import json
import os
import random
import shutil
import subprocess
import time

from . import common as C
from . import stdsrc

PID = "C19"
BATCH = 200
CFG = {"quick": "Stdlib_quick", "thorough": "Stdlib_thorough"}
SIM = {"quick": ("Stdlib_sim", 1200), "thorough": ("Stdlib_sim", 80000)}   # traces per worker
WORKERS = 6
HELPERS = {   # every helper the property names -> the REPLAY `h` values that exercise it
    "lists.len": ["len"], "lists.reverse": ["reverse"], "lists.head": ["head"], "lists.tail": ["tail"],
    "lists.enumerate": ["enumerate"], "lists.zip": ["zip"], "lists.slice": ["slice"],
    "lists.str_join": ["str_join", "split_join"],
    "tuples.fields": ["fields"], "tuples.values": ["values"], "tuples.iter": ["iter"],
    "tuples.strip_nulls": ["strip_nulls"], "tuples.has_fields": ["has_fields"],
    "strings.len": ["strlen"], "strings.chars": ["chars"], "strings.split_on": ["split_on", "split_join"],
    "strings.split_at": ["split_at"], "strings.substr": ["substr"],
    "strings.parse_int": ["parse_int_unwrap", "parse_int_is_null"],
    "functional.maybe": ["maybe_unwrap", "maybe_is_null", "maybe_expect"],
    "schema.shaped": ["shaped"], "schema.any": ["any"], "schema.all": ["all"],
    "schema.base_type_of": ["base_type_of"],
}

# ---- concrete pools (refinement, DESIGN 3.6) -------------------------------------

ASCII_CHARS = list("abcxyzABQ _-+*/=<>!?#$&|~^.,;:'()[]{}@%") + ['"', "\\", "\t", "\n"]
UNI_CHARS = list("éßñüøλЖяשع中日本한") + [" ", " ", "́", "‍", "😀", "𝄞", "\U0001F1E9", "٣", "①"]
DIGITS = "0123456789"
IDENT_NAMES = ["foo", "bar", "baz", "quux", "x_1", "name", "val", "count", "left", "right", "list", "tpl", "str",
               "result", "Big", "k9", "inner", "a", "b", "zz_top"]
QUOTED_NAMES = ["foo bar", "é", "日本", "a-b", "with.dot", "1st", "sp ace", "ß_x", "q\"q", "λ"]


def _v(t, **kw):
    d = {"t": t}
    d.update(kw)
    return d


def elem_pool(rng):
    """Distinct mixed-type values (the falsy ones of every type included)."""
    strs = ["", "a", "foo bar", "é", "日本", "x,y", "@", "NULL", "true", "0", "😀", "q\"q", "back\\slash", " "]
    pool = ([_v("int", i=i) for i in (0, 1, 2, 7, 42, 1000000, 9007199254740993)]
            + [_v("str", s=s) for s in strs]
            + [_v("bool", b=True), _v("bool", b=False)]
            + [_v("float", f=x) for x in (2.5, 0.25, 0.0, 1e3)]
            + [_v("list", es=[]), _v("list", es=[_v("int", i=1), _v("str", s="a")]),
               _v("list", es=[_v("list", es=[])]), _v("list", es=[_v("null")]),
               _v("tuple", fs=[]), _v("tuple", fs=[("a", _v("int", i=1))]),
               _v("tuple", fs=[("b", _v("null")), ("a", _v("str", s=""))]),
               _v("tuple", fs=[("k", _v("list", es=[_v("bool", b=False)]))])])
    rng.shuffle(pool)
    return pool


def ident_ok(n):
    return n.replace("_", "a").isalnum() and n.isascii() and not n[0].isdigit()


# ---- text of concrete values -------------------------------------------------------

def str_lit(s):
    out = []
    for c in s:
        if c == '"':
            out.append('\\"')
        elif c == "\\":
            out.append("\\\\")
        elif c == "\n":
            out.append("\\n")
        elif c == "\t":
            out.append("\\t")
        elif c == "\r":
            out.append("\\r")
        else:
            out.append(c)
    return '"' + "".join(out) + '"'


def text(v):
    t = v["t"]
    if t == "null":
        return "NULL"
    if t == "bool":
        return "true" if v["b"] else "false"
    if t == "int":
        return str(v["i"]) if v["i"] >= 0 else "(0 - %d)" % -v["i"]
    if t == "float":
        r = repr(float(v["f"]))
        if "e" in r or "inf" in r or "nan" in r:
            raise C.ToolError("float %r has no plain literal" % (v["f"],))
        return r
    if t == "str":
        return str_lit(v["s"])
    if t == "list":
        return "[" + ", ".join(text(e) for e in v["es"]) + "]"
    if t == "tuple":
        return "{" + ", ".join("%s = %s" % (n if ident_ok(n) else str_lit(n), text(x)) for n, x in v["fs"]) + "}"
    if t == "func":
        return v.get("src", "func (x) => x")
    if t == "module":
        return v.get("src", "module{} => {}")
    raise C.ToolError("cannot render %r" % (v,))


def show(v):
    """A concrete value for messages / samples (ucg-like text)."""
    try:
        return text(v)
    except Exception:
        return json.dumps(v, ensure_ascii=False)


def same_value(exp, got):
    """exp: concrete value of the prediction; got: value JSON of the harness."""
    t = exp["t"]
    if t != got.get("t"):
        return False
    if t == "null":
        return True
    if t == "bool":
        return exp["b"] == got["b"]
    if t == "int":
        return exp["i"] == got["i"]
    if t == "float":
        try:
            return float(got["r"]) == float(exp["f"])
        except Exception:
            return False
    if t == "str":
        return exp["s"] == got["s"]
    if t == "list":
        return len(exp["es"]) == len(got["es"]) and all(same_value(a, b) for a, b in zip(exp["es"], got["es"]))
    if t == "tuple":
        return (len(exp["fs"]) == len(got["fs"])
                and all(a[0] == b["nm"] and same_value(a[1], b["val"]) for a, b in zip(exp["fs"], got["fs"])))
    return False


def got_to_conc(g):
    t = g.get("t")
    if t == "float":
        try:
            return _v("float", f=float(g["r"]))
        except Exception:
            return _v("str", s="<float %r>" % (g,))
    if t == "list":
        return _v("list", es=[got_to_conc(e) for e in g["es"]])
    if t == "tuple":
        return _v("tuple", fs=[(f["nm"], got_to_conc(f["val"])) for f in g["fs"]])
    return g


# ---- refinement of one abstract case ---------------------------------------------------

def _seq(x):
    """ToJson writes an empty function as {}."""
    return [] if x == {} else x


class Refiner:
    """Per-case maps from abstract ids to concrete data (injective; the digit /
    non-digit class of a character is preserved)."""

    def __init__(self, rng, case):
        self.rng = rng
        fam = case["fam"]
        uni = rng.random() < 0.5
        base = list(ASCII_CHARS) + (list(UNI_CHARS) if uni else []) + (list(UNI_CHARS) if uni and rng.random() < 0.5 else [])
        if fam != "parseint" and rng.random() < 0.3:
            base += list(DIGITS)
        base = [c for c in dict.fromkeys(base) if c != " " or fam not in ("split", "join")]
        if fam == "parseint":
            base = [c for c in base if c not in DIGITS]
        picks = rng.sample(base, 4)
        self.cmap = {"c%d" % (i + 1): picks[i] for i in range(4)}
        names = list(IDENT_NAMES) + (list(QUOTED_NAMES) if rng.random() < 0.4 else [])
        picks = rng.sample(names, 9)
        self.nmap = {"n%d" % (i + 1): picks[i] for i in range(9)}
        pool = elem_pool(rng)
        allow_null = fam in ("list1", "enum", "zip", "slice") and rng.random() < 0.3
        if allow_null:
            pool.insert(rng.randrange(3), _v("null"))
        self.emap = {k + 1: pool[k] for k in range(3)}
        self.leaf_rng = random.Random(rng.random())

    def chars(self, s):
        return "".join(self.cmap.get(c, self.nmap.get(c, c)) for c in _seq(s))

    def name(self, n):
        return self.nmap.get(n, n)

    def typed_leaf(self, v):
        """schema families: a leaf keeps its type, the payload is arbitrary."""
        r = self.leaf_rng
        t = v["t"]
        if t == "int":
            return _v("int", i=r.choice([0, 1, 3, 77, 123456789]))
        if t == "str":
            return _v("str", s=r.choice(["", "a", "é", "int", "x y", "[]"]))
        if t == "bool":
            return _v("bool", b=r.random() < 0.5)
        if t == "float":
            return _v("float", f=r.choice([1.5, 0.0, 2.25, 10.0]))
        if t == "func":
            return _v("func", src=r.choice(["func (x) => x", "func () => 1", "func (a, b) => a + b"]))
        if t == "module":
            return _v("module", src=r.choice(["module{} => {}", "module{a = 1} => (a) { let a = mod.a; }"]))
        return None

    def value(self, v, typed=False):
        t = v["t"]
        if t == "elem":
            return self.emap[v["k"]]
        if t == "null":
            return _v("null")
        if typed and t in ("int", "str", "bool", "float", "func", "module"):
            return self.typed_leaf(v)
        if t == "bool":
            return _v("bool", b=v["b"])
        if t == "int":
            return _v("int", i=v["i"])
        if t == "bigint":
            return _v("int", i=int("".join(_seq(v["ds"]))))
        if t == "float":
            return _v("float", f=v["fn"] / float(2 ** v["fk"]))
        if t == "str":
            return _v("str", s=self.chars(v["s"]))
        if t == "list":
            return _v("list", es=[self.value(e, typed) for e in _seq(v["es"])])
        if t == "tuple":
            return _v("tuple", fs=[(self.name(f["nm"]), self.value(f["val"], typed)) for f in _seq(v["fs"])])
        if t in ("func", "module"):
            return _v(t)
        raise C.ToolError("cannot refine %r" % (v,))


MAYBE_OPS = {
    "do_wrap": ".do(func (x) => [x])",
    "do_const": ".do(func (x) => %(e2)s)",
    "do_null": ".do(func (x) => NULL)",
    "do_fail": ".do(func (x) => fail \"do ran\")",
    "or_const": ".or(func () => %(e3)s)",
    "or_null": ".or(func () => NULL)",
    "or_fail": ".or(func () => fail \"or ran\")",
}


def _fields(rng, pairs):
    """module / tuple fields `a=1, b=2` in a seeded order (order of the fields of a
    copy does not matter to the language)."""
    pairs = [p for p in pairs if p is not None]
    rng.shuffle(pairs)
    eq = rng.choice(["=", " = "])
    return ", ".join("%s%s%s" % (k, eq, v) for k, v in pairs)


def render_call(case, rf, al, rng):
    """-> (expression text, needs_hatch).  al: import aliases."""
    h = case["h"]
    a = [x for x in _seq(case["args"])]
    typed = case["fam"] in ("basetype", "shaped", "anyall")
    dflt = lambda x: x["t"] == "dflt"
    cv = lambda x: text(rf.value(x, typed))
    ops = rng.random() < 0.35       # the `ops` wrapper spelling where one exists
    L, T, S, F, SC = al["lists"], al["tuples"], al["strings"], al["functional"], al["schema"]
    if h in ("len", "reverse", "head", "tail"):
        lst = cv(a[0])
        if ops:
            suffix = {"len": ".len", "reverse": ".reverse().list", "head": ".head()", "tail": ".tail().list"}[h]
            return "%s.ops{list=%s}%s" % (L, lst, suffix), True
        return "%s.%s(%s)" % (L, h, lst), False
    if h == "enumerate":
        if ops and dflt(a[1]) and dflt(a[2]):
            return "%s.ops{list=%s}.enumerate().list" % (L, cv(a[0])), True
        return "%s.enumerate{%s}" % (L, _fields(rng, [("list", cv(a[0])),
                                                    None if dflt(a[1]) else ("start", cv(a[1])),
                                                    None if dflt(a[2]) else ("step", cv(a[2]))])), False
    if h == "zip":
        return "%s.zip{%s}" % (L, _fields(rng, [("list1", cv(a[0])), ("list2", cv(a[1]))])), False
    if h == "slice":
        if ops and not dflt(a[1]) and not dflt(a[2]):
            return "%s.ops{list=%s}.slice(%s, %s)" % (L, cv(a[0]), cv(a[1]), cv(a[2])), True
        end = None if dflt(a[2]) else ("end", cv(a[2]))
        if dflt(a[2]) and rng.random() < 0.2:
            end = ("end", "NULL")              # the documented default, spelled out
        return "%s.slice{%s}" % (L, _fields(rng, [("list", cv(a[0])),
                                                None if dflt(a[1]) else ("start", cv(a[1])), end])), False
    if h == "str_join":
        if ops and not dflt(a[1]):
            return "%s.ops{list=%s}.str_join(%s)" % (L, cv(a[0]), cv(a[1])), True
        return "%s.str_join{%s}" % (L, _fields(rng, [("list", cv(a[0])),
                                                   None if dflt(a[1]) else ("sep", cv(a[1]))])), False
    if h in ("fields", "values", "iter"):
        if ops:
            return "%s.ops{tpl=%s}.%s()" % (T, cv(a[0]), h), True
        return "%s.%s{tpl=%s}" % (T, h, cv(a[0])), False
    if h == "strip_nulls":
        return "%s.strip_nulls{tpl=%s}" % (T, cv(a[0])), False
    if h == "has_fields":
        return "%s.has_fields{%s}" % (T, _fields(rng, [("tpl", cv(a[0])), ("fields", cv(a[1]))])), False
    wrap = lambda s: ("%s.wrap(%s)" % (S, s)) if rng.random() < 0.6 else ("%s.ops{str=%s}" % (S, s))
    if h == "strlen":
        return wrap(cv(a[0])) + ".len", True
    if h == "chars":
        return wrap(cv(a[0])) + ".chars", True
    if h == "split_on":
        return "%s.split_on{%s}" % (wrap(cv(a[0])), "" if dflt(a[1]) else "on=" + cv(a[1])), True
    if h == "split_join":
        inner = "%s.split_on{on=%s}" % (wrap(cv(a[0])), cv(a[1]))
        return "%s.str_join{%s}" % (L, _fields(rng, [("list", inner), ("sep", cv(a[1]))])), True
    if h == "split_at":
        return "%s.split_at(%s)" % (wrap(cv(a[0])), cv(a[1])), True
    if h == "substr":
        return "%s.substr{%s}.str" % (wrap(cv(a[0])), _fields(rng, [None if dflt(a[1]) else ("start", cv(a[1])),
                                                                   None if dflt(a[2]) else ("end", cv(a[2]))])), True
    if h in ("parse_int_unwrap", "parse_int_is_null"):
        return "%s.parse_int().%s()" % (wrap(cv(a[0])), "unwrap" if h.endswith("unwrap") else "is_null"), True
    if h.startswith("maybe_"):
        sub = {"e2": text(rf.emap[2]), "e3": text(rf.emap[3])}
        chain = "".join(MAYBE_OPS[o] % sub for o in _seq(a[1]["os"]))
        fin = {"maybe_unwrap": ".unwrap()", "maybe_is_null": ".is_null()",
               "maybe_expect": ".expect(\"nothing here\")"}[h]
        return "%s.maybe{val=%s}%s%s" % (F, cv(a[0]), chain, fin), True
    if h == "base_type_of":
        return "%s.base_type_of(%s)" % (SC, cv(a[0])), False
    part = lambda x: None if dflt(x) else ("partial", text(rf.value(x)))     # the flag itself is not re-typed
    if h == "shaped":
        return "%s.shaped{%s}" % (SC, _fields(rng, [("val", cv(a[0])), ("shape", cv(a[1])), part(a[2])])), False
    if h == "any":
        return "%s.any{%s}" % (SC, _fields(rng, [("val", cv(a[0])), ("types", cv(a[1])), part(a[2])])), False
    if h == "all":
        return "%s.all{%s}" % (SC, _fields(rng, [("val", cv(a[0])), ("types", cv(a[1]))])), False
    raise C.ToolError("no calling convention for helper %r" % h)


ALIASES = {"lists": ["lists", "l", "list", "L"], "tuples": ["tuples", "tpl", "t"], "strings": ["strings", "s", "strs"],
           "functional": ["f", "fn", "functional"], "schema": ["schema", "sch"]}
LIBS = ["lists", "tuples", "strings", "functional", "schema"]


def aliases(rng):
    return {k: rng.choice(v) for k, v in ALIASES.items()}


def header(al, rng):
    libs = list(LIBS)
    rng.shuffle(libs)
    return "".join('let %s = import "std/%s.ucg";\n' % (al[k], k) for k in libs)


def nontrivial(case):
    """The outcome depends on the content of the operands: a non-empty first operand
    (list / tuple / string / chain / composite value)."""
    a0 = _seq(case["args"])[0]
    if case["fam"] == "maybe":
        return len(_seq(_seq(case["args"])[1]["os"])) > 0
    for k in ("es", "fs", "s"):
        if k in a0:
            return len(_seq(a0[k])) > 0
    return case["fam"] in ("shaped", "anyall")


def refine(case, sd, al):
    """-> dict(expr, hatch, exp={"ok":[concrete], "mayfail"}, dev=..., devexp=...)"""
    rng = random.Random(sd)
    rf = Refiner(rng, case)
    expr, hatch = render_call(case, rf, al, rng)
    if hatch:
        # C07 (recorded there): the checker rejects `x.m{..}` / `x.f(..)` on a call result in a let
        # binding; arguments of a call and list items are not checked that way
        expr = ("%s.identity(%s)" % (al["functional"], expr)) if rng.random() < 0.6 else ("[%s].0" % expr)
    conc = lambda vs: [rf.value(v) for v in _seq(vs)]      # predictions are never re-typed
    out = {"expr": expr,
           "exp": {"ok": conc(case["ok"]), "mayfail": bool(case["mayfail"])},
           "dev": case["dev"],
           "devexp": {"ok": conc(case["devok"]), "mayfail": bool(case["devfail"])} if case["dev"] else None}
    return out


# ---- worker: build files, observe ----------------------------------------------------------

_WDIR = None
_WN = 0


def _wdir(base):
    global _WDIR
    if _WDIR is None:
        _WDIR = os.path.join(base, "w%d" % os.getpid())
        os.makedirs(_WDIR, exist_ok=True)
    return _WDIR


def _newfile(base, textv):
    global _WN
    _WN += 1
    p = os.path.join(_wdir(base), "b%d.ucg" % _WN)
    with open(p, "w", encoding="utf-8") as f:
        f.write(textv)
    return p


def file_text(hdr, exprs):
    return hdr + "".join("let r%d = %s;\n" % (i, e) for i, e in enumerate(exprs))


def _obs_of(r):
    """-> ("ok", {name: value}) | ("fail", msg) | ("crash", msg)"""
    if "crash" in r:
        return ("crash", "%s: %s" % (r["crash"], r.get("msg", "")))
    o = r["out"]
    if o["k"] == "ok":
        return ("ok", {f["nm"]: f["val"] for f in o.get("val", {}).get("fs", [])})
    return ("fail", o.get("msg", ""))


# Circuit breakers, per worker process and helper.  A change that makes a helper fail, panic or hang
# on many inputs must not turn the run into hours of bisection and time-outs: after FAIL_LIMIT
# unexpected failures the helper's calls are built one per file, after CRASH_LIMIT crashes/time-outs
# its remaining calls are skipped (counted; the crashes found are the verdict).
_CRASHES = {}
_FAILS = {}
CRASH_LIMIT = 2
FAIL_LIMIT = 12
T_LEAF = 10.0
SKIPPED = ("skipped", "not run: this helper already crashed or hung %d times in this worker" % CRASH_LIMIT)


def _note(name, k):
    if k == "crash":
        _CRASHES[name] = _CRASHES.get(name, 0) + 1
    if k != "ok":
        _FAILS[name] = _FAILS.get(name, 0) + 1


def build_group(h, base, hdr, exprs, names, stats):
    """Observations for expressions expected to build together: one file; on a failure the
    group is bisected.  names: the helper of each expression (for the circuit breakers)."""
    live = [i for i in range(len(exprs)) if _CRASHES.get(names[i], 0) < CRASH_LIMIT]
    if len(live) < len(exprs):
        out = [SKIPPED] * len(exprs)
        if live:
            for i, o in zip(live, build_group(h, base, hdr, [exprs[i] for i in live], [names[i] for i in live], stats)):
                out[i] = o
        return out
    if not exprs:
        return []
    p = _newfile(base, file_text(hdr, exprs))
    r = h.req({"op": "build", "path": p, "fresh": False, "strict": True}, timeout=T_LEAF + 0.05 * len(exprs))
    stats["builds"] += 1
    os.unlink(p)
    k, x = _obs_of(r)
    if k == "ok":
        out = []
        for i in range(len(exprs)):
            if "r%d" % i not in x:
                raise C.ToolError("binding r%d missing from a successful build" % i)
            out.append(("ok", x["r%d" % i]))
        return out
    if len(exprs) == 1:
        _note(names[0], k)
        return [(k, x)]
    stats["bisections"] += 1
    mid = len(exprs) // 2
    return (build_group(h, base, hdr, exprs[:mid], names[:mid], stats)
            + build_group(h, base, hdr, exprs[mid:], names[mid:], stats))


def build_singles(h, base, hdr, exprs, names, stats, expected_fail):
    """One file per expression, 40 requests per round trip."""
    out = [None] * len(exprs)
    for lo in range(0, len(exprs), 40):
        part = [i for i in range(lo, min(lo + 40, len(exprs)))]
        run = [i for i in part if _CRASHES.get(names[i], 0) < CRASH_LIMIT]
        for i in part:
            if i not in run:
                out[i] = SKIPPED
        if not run:
            continue
        paths = [_newfile(base, file_text(hdr, [exprs[i]])) for i in run]
        reqs = [{"op": "build", "path": q, "fresh": False, "strict": True} for q in paths]
        r = h.req({"op": "batch", "reqs": reqs}, timeout=T_LEAF + 0.05 * len(reqs))
        resps = r.get("resps") if isinstance(r, dict) else None
        if resps is not None and r.get("restart"):
            h.close()
        for j, i in enumerate(run):
            x = resps[j] if resps is not None else {"skipped": True}
            if x.get("skipped"):            # behind a crash in the batch, or the whole batch was lost
                if _CRASHES.get(names[i], 0) >= CRASH_LIMIT:
                    out[i] = SKIPPED
                    continue
                x = h.req(reqs[j], timeout=T_LEAF)
            if "toolerr" in x:
                raise C.ToolError("harness: " + str(x["toolerr"]))
            stats["builds"] += 1
            k, v = _obs_of(x)
            out[i] = (k, v["r0"]) if k == "ok" else (k, v)
            if k == "crash" or (k != "ok" and not expected_fail[i]):
                _note(names[i], k)
        for q in paths:
            try:
                os.unlink(q)
            except OSError:
                pass
    return out


def judge(obs, exp):
    """Is the observation one of the admissible outcomes?"""
    k, x = obs
    if k == "crash":
        return False
    if k == "fail":
        return exp["mayfail"] and bool(str(x).strip())
    return any(same_value(e, x) for e in exp["ok"])


def obs_text(obs):
    k, x = obs
    if k == "ok":
        return "value " + show(got_to_conc(x))
    return "%s: %s" % (k, str(x).strip().replace("\n", " | ")[:400])


def exp_text(exp):
    alts = [show(e) for e in exp["ok"]]
    if exp["mayfail"]:
        alts.append("a failing build")
    return " or ".join(alts)


def work(h, items):
    """items: batches (base, seed, flip_index, [case json strings]).  Worker process."""
    out = []
    for base, sd, flip, cjs in items:
        rng = random.Random(sd)
        al = aliases(rng)
        hdr = header(al, rng)
        cases = [json.loads(cj) for cj in cjs]
        refs = [refine(c, sd * 7919 + i, al) for i, c in enumerate(cases)]
        if flip is not None:      # binding demo: one prediction altered
            e = refs[flip]["exp"]
            refs[flip]["exp"] = {"ok": [_v("str", s="altered prediction") if e["ok"] else _v("int", i=424242)],
                                 "mayfail": False}
        stats = {"builds": 0, "bisections": 0}
        # what the build is likely to do decides the grouping (not the verdict)
        likely_fail = [(r["devexp"]["mayfail"] if r["dev"] else r["exp"]["mayfail"]) for r in refs]
        obs = [None] * len(cases)
        hs = [c["h"] for c in cases]
        one = lambda i: likely_fail[i] or _FAILS.get(hs[i], 0) >= FAIL_LIMIT
        grp = [i for i in range(len(cases)) if not one(i)]
        if grp:
            for i, o in zip(grp, build_group(h, base, hdr, [refs[i]["expr"] for i in grp], [hs[i] for i in grp], stats)):
                obs[i] = o
        singles = [i for i in range(len(cases)) if obs[i] is None]
        for i, o in zip(singles, build_singles(h, base, hdr, [refs[i]["expr"] for i in singles],
                                               [hs[i] for i in singles], stats, [likely_fail[i] for i in singles])):
            obs[i] = o
        for i, (c, r) in enumerate(zip(cases, refs)):
            if obs[i][0] == "skipped":
                out.append({"skipped": c["h"]})
                continue
            ok = judge(obs[i], r["exp"])
            res = {"n": 1, "nt": 1 if nontrivial(c) else 0, "h": c["h"], "expr": r["expr"],
                   "open": 1 if (r["exp"]["mayfail"] and r["exp"]["ok"]) or len(r["exp"]["ok"]) > 1 else 0,
                   "failpred": 1 if (r["exp"]["mayfail"] and not r["exp"]["ok"]) else 0}
            if not ok:
                if obs[i][0] == "crash":
                    key = "crash:%s" % c["h"]
                elif r["dev"] and judge(obs[i], r["devexp"]) and flip != i:
                    key = "dev:%s" % r["dev"]        # the deviation predicts exactly this observation
                else:
                    key = "unexplained:%s:%s" % (c["h"], "fails" if obs[i][0] == "fail" else "value")
                res["bad"] = key
                res["info"] = {"family": c["fam"], "helper": c["h"], "abstract_args": c["args"],
                               "program": file_text(hdr, [r["expr"]]), "binding": "r0",
                               "expect": r["exp"], "predicted": exp_text(r["exp"]),
                               "observed": obs_text(obs[i]),
                               "deviation": c["dev"] or None}
            elif i % 37 == 0:
                res["sample"] = {"helper": c["h"], "call": r["expr"], "predicted": exp_text(r["exp"]),
                                 "observed": obs_text(obs[i])}
            out.append(res)
        # a batch file that built as a whole can also go through the real binary (bindings that already
        # disagreed here are not compared there a second time)
        whole = bool(grp) and stats["bisections"] == 0 and sd % 7 == 0 and all(obs[i][0] == "ok" for i in grp)
        out.append({"stats": stats, "file": file_text(hdr, [refs[i]["expr"] for i in grp]) if whole else None,
                    "fileexp": [refs[i]["exp"] if judge(obs[i], refs[i]["exp"]) else None for i in grp] if whole else None})
        if h.n > 2500:       # the environment caches every file's ops by path: bound the harness's memory
            h.close()
            h.n = 0
    return out


# ---- the real binary: a seeded sample of batch files through `ucg build` + out json -------------

def jsonable(v):
    """Is the concrete value faithfully observable through `out json`?  (ints beyond
    2^53 and floats are C03's business; NULL in a list is fine)"""
    t = v["t"]
    if t == "int":
        return abs(v["i"]) < 2 ** 53
    if t == "float":
        return False
    if t == "list":
        return all(jsonable(e) for e in v["es"])
    if t == "tuple":
        return all(jsonable(x) for _, x in v["fs"]) and len({n for n, _ in v["fs"]}) == len(v["fs"])
    return t in ("null", "bool", "str")


def to_py(v):
    t = v["t"]
    if t == "null":
        return None
    if t == "bool":
        return v["b"]
    if t == "int":
        return v["i"]
    if t == "str":
        return v["s"]
    if t == "list":
        return [to_py(e) for e in v["es"]]
    if t == "tuple":
        return {n: to_py(x) for n, x in v["fs"]}
    raise C.ToolError("not jsonable: %r" % (v,))


def json_equal(a, b):
    """Python json values; 3 and 3.0 are the same JSON number for this purpose."""
    if isinstance(a, bool) or isinstance(b, bool):
        return a is b
    if isinstance(a, (int, float)) and isinstance(b, (int, float)):
        return a == b
    if type(a) != type(b):
        return False
    if isinstance(a, list):
        return len(a) == len(b) and all(json_equal(x, y) for x, y in zip(a, b))
    if isinstance(a, dict):
        return a.keys() == b.keys() and all(json_equal(a[k], b[k]) for k in a)
    return a == b


def run_binary(ucg, base, files):
    """files: (text of a batch file whose bindings all built in the harness, [exp]).  The same
    file plus `out json {r0=r0,...}` over the JSON-observable bindings, built by the binary."""
    d = os.path.join(base, "bin")
    home = os.path.join(base, "home")
    os.makedirs(d, exist_ok=True)
    os.makedirs(home, exist_ok=True)
    env = dict(os.environ)
    env["HOME"] = home
    env.pop("RUST_BACKTRACE", None)
    env.pop("UCG_VERIF_TRACE", None)
    res = []
    for n, (textv, exps) in enumerate(files):
        keep = [i for i, e in enumerate(exps)
                if e is not None and len(e["ok"]) == 1 and not e["mayfail"] and jsonable(e["ok"][0])]
        if not keep:
            continue
        path = os.path.join(d, "s%d.ucg" % n)
        with open(path, "w", encoding="utf-8") as f:
            f.write(textv + "out json {%s};\n" % ", ".join("r%d = r%d" % (i, i) for i in keep))
        try:
            p = subprocess.run([ucg, "build", path], cwd=d, env=env, stdout=subprocess.PIPE, stderr=subprocess.PIPE,
                               text=True, timeout=300)
            rc, err = p.returncode, p.stderr[-600:]
        except subprocess.TimeoutExpired:
            rc, err = "timeout", ""
        art = os.path.join(d, "s%d.json" % n)
        doc = None
        if rc == 0 and os.path.exists(art):
            try:
                doc = json.load(open(art, encoding="utf-8"))
            except Exception as e:
                err = "artifact is not JSON: %s" % e
        bad = []
        if doc is None:
            bad.append(("binary-build", "exit %s: %s" % (rc, err)))
        else:
            for i in keep:
                want = to_py(exps[i]["ok"][0])
                if "r%d" % i not in doc or not json_equal(doc["r%d" % i], want):
                    bad.append(("binary-value", "r%d: out json has %s, predicted %s" % (
                        i, json.dumps(doc.get("r%d" % i), ensure_ascii=False)[:300],
                        json.dumps(want, ensure_ascii=False)[:300])))
        res.append((path, len(keep), bad, textv))
    return res


# ---- replay of one recorded case -----------------------------------------------------------------

def _load_exp(e):
    def fix(v):
        if v["t"] == "list":
            return _v("list", es=[fix(x) for x in v["es"]])
        if v["t"] == "tuple":
            return _v("tuple", fs=[(n, fix(x)) for n, x in v["fs"]])
        return v
    return {"ok": [fix(v) for v in e["ok"]], "mayfail": e["mayfail"]}


def observe_program(hp, program, binding="r0", timeout=120):
    base = C.scratch_dir("c19r")
    try:
        f = os.path.join(base, "replay.ucg")
        with open(f, "w", encoding="utf-8") as fh:
            fh.write(program)
        h = C.Harness(hp, timeout=timeout)
        r = h.req({"op": "build", "path": f, "fresh": True, "strict": True})
        h.close()
    finally:
        shutil.rmtree(base, ignore_errors=True)
    k, x = _obs_of(r)
    if k == "ok":
        if binding not in x:
            raise C.ToolError("binding %s missing" % binding)
        return (k, x[binding])
    return (k, x)


def do_replay(hp, path):
    rec = json.load(open(path, encoding="utf-8"))["case"]
    if "program" not in rec:
        raise C.ToolError("not a C19 replay file: %s" % path)
    exp = _load_exp(rec["expect"])
    obs = observe_program(hp, rec["program"], rec.get("binding", "r0"))
    ok = judge(obs, exp)
    print("replay %s: predicted %s; observed %s -> %s" % (path, exp_text(exp), obs_text(obs),
                                                         "agrees" if ok else "DISAGREES"))
    if not ok:
        print("VIOLATION property=%s replay=%s" % (PID, path))
    return 0 if ok else 1


# ---- main ---------------------------------------------------------------------------------------------

def check_laws_can_fail(cmds):
    """Sanity of the specification itself: with a recorded deviation switched on TLC must
    refute the law of the property statement the defect breaks (the laws are not vacuous)."""
    for cfg, law in (("Stdlib_devzip", "LawsZip"), ("Stdlib_devjoin", "LawsSplit")):
        r = C.run_tlc("Stdlib", cfg, workers=2, timeout=600)
        cmds.append(r.cmd)
        if r.violation != law:
            raise C.ToolError("%s: expected TLC to refute %s under the deviation, got %r\n%s"
                              % (cfg, law, r.violation, r.errtext[:1500]))


ALL_FAMILIES = ["list1", "enum", "zip", "slice", "join", "tuple", "str1", "split", "splitat", "substr", "parseint",
                "maybe", "basetype", "shaped", "anyall"]
ALL_DEVS = ["TailEmptyFails", "ZipLongerRange", "JoinSepSkippedWhileEmpty", "ShapedTupleLastFieldDecides"]


def _tla_set(xs):
    return "{" + ", ".join('"%s"' % x for x in xs) + "}"


class SourceCheck:
    """Growth step: std/*.ucg of the working tree, parsed by the harness, evaluated by Eval.tla
    inside TLC against the reference definitions (StdlibSrc.tla).  Runs as a child process
    (`python3 -m vp.c19 srccheck <dir>`; no thread in this process, which forks workers) next to
    the replay.  SrcDevs = the deviations of the findings that are still open."""

    def __init__(self, hp, tier, open_devs):
        import sys
        self.gd = C.gen_dir("c19src")
        # quick: reduced bounds (~8k calls); thorough: the design bounds, the same calls as Stdlib_quick.cfg (~80k)
        self.size = "srcq" if tier == "quick" else "quick"
        src = stdsrc.load(hp)
        with open(os.path.join(self.gd, "stdsrc.json"), "w", encoding="utf-8") as f:
            json.dump(src, f)
        with open(os.path.join(self.gd, "MC_StdlibSrc.tla"), "w") as f:
            f.write("---- MODULE MC_StdlibSrc ----\nEXTENDS StdlibSrc\n====\n")
        with open(os.path.join(self.gd, "MC_StdlibSrc.cfg"), "w") as f:
            f.write("CONSTANTS\n  Families = %s\n  Size = \"%s\"\n  Sim = FALSE\n  Deviations = {}\n"
                    "  KnownDevs = %s\n  SrcDevs = %s\n  Strict = TRUE\n  EnvVars <- NoEnvVars\n"
                    "INIT Init\nNEXT Next\nCHECK_DEADLOCK FALSE\nINVARIANTS SrcAgrees PackagesEvaluate\n"
                    % (_tla_set(ALL_FAMILIES), self.size, _tla_set(ALL_DEVS), _tla_set(sorted(open_devs))))
        self.p = subprocess.Popen([sys.executable, "-m", "vp.c19", "srccheck", self.gd], cwd=C.VERIF,
                                  stdout=subprocess.DEVNULL, stderr=subprocess.PIPE, text=True)

    def finish(self):
        _, err = self.p.communicate()
        out = os.path.join(self.gd, "result.json")
        try:
            if self.p.returncode != 0 or not os.path.exists(out):
                raise C.ToolError("source check failed to run: %s" % (err or "")[-2000:])
            r = json.load(open(out, encoding="utf-8"))
        finally:
            shutil.rmtree(self.gd, ignore_errors=True)
        if r["violation"]:
            raise C.ToolError("StdlibSrc.tla: %s violated - a std file does not evaluate under Eval.tla\n%s"
                              % (r["violation"], r["errtext"][:2000]))
        if not r["ok"]:
            raise C.ToolError("TLC failed on StdlibSrc: %s\n%s" % (r["errtext"][:3000], r["cmd"]))
        if r["n"] + len(r["disagree"]) == 0:
            raise C.ToolError("StdlibSrc evaluated no call (vacuous)")
        return r


def srccheck_main(gd):
    n = [0]

    def on(_o):
        n[0] += 1
    r = C.run_tlc("MC_StdlibSrc", "MC_StdlibSrc", workers=WORKERS, on_replay=on, timeout=3000, heap="6g",
                  env_extra={"C19_SRC": os.path.join(gd, "stdsrc.json")}, gendir=gd)
    with open(os.path.join(gd, "result.json"), "w", encoding="utf-8") as f:
        json.dump({"ok": r.ok, "violation": r.violation, "errtext": r.errtext, "cmd": r.cmd, "wall": r.wall,
                   "distinct": r.distinct, "generated": r.generated, "n": n[0], "disagree": r.disagree}, f)
    return 0


def main(tier, replay=None):
    t0 = time.time()
    hp = C.ensure_harness()
    if replay:
        return do_replay(hp, replay)
    rep = C.Reporter(PID)
    sd = C.seed()
    alter = int(os.environ.get("VERIF_C19_ALTER", "0") or 0)     # binding demo: alter the n-th prediction
    cmds = []
    cases = []          # compact JSON strings (31k..1M dicts are heavy)
    perh = {}
    states = trans = 0
    configs = []

    def on(o):
        perh[o["h"]] = perh.get(o["h"], 0) + 1
        cases.append(json.dumps(o, separators=(",", ":"), ensure_ascii=False))

    # 1. exhaustive enumeration + laws
    r = C.run_tlc("Stdlib", CFG[tier], workers=WORKERS, on_replay=on, timeout=3000, heap="6g")
    cmds.append(r.cmd)
    if r.violation:
        raise C.ToolError("Stdlib.tla: %s violated with Deviations = {} — the reference contradicts its own laws\n%s"
                          % (r.violation, r.errtext[:3000]))
    C.require_tlc_ok(r, CFG[tier])
    n_mc = len(cases)
    states += r.distinct
    trans += r.generated
    configs.append("%s: exhaustive, %d states, %d calls, TLC %.0fs" % (CFG[tier], r.distinct, n_mc, r.wall))
    C.log("[c19] %s: %d states, %d calls in %.0fs" % (CFG[tier], r.distinct, n_mc, r.wall))
    # 2. simulation: lengths to 12 / 8 / 20, separators to 3
    scfg, num = SIM[tier]
    r = C.run_tlc("Stdlib", scfg, workers=WORKERS, simulate=num, depth=60, on_replay=on, timeout=3000, heap="6g")
    cmds.append(r.cmd)
    if r.violation:
        raise C.ToolError("Stdlib.tla (simulation): %s violated with Deviations = {}\n%s" % (r.violation, r.errtext[:3000]))
    C.require_tlc_ok(r, scfg)
    n_sim = len(cases) - n_mc
    states += r.generated
    trans += r.generated
    configs.append("%s: -simulate num=%d x %d workers depth 60, %d states, %d calls, TLC %.0fs"
                   % (scfg, num, WORKERS, r.generated, n_sim, r.wall))
    C.log("[c19] %s: %d calls in %.0fs" % (scfg, n_sim, r.wall))
    if tier == "thorough":
        check_laws_can_fail(cmds)
    # vacuity: every helper the property names must have been exercised
    for name, hs in HELPERS.items():
        if not any(perh.get(h) for h in hs):
            raise C.ToolError("no call of %s was generated (vacuous)" % name)

    # 3. replay.  TLC's workers print in any order: sort for determinism per seed, then
    #    deal the cases into batches
    mc = sorted(set(cases[:n_mc]))
    sim = sorted(set(cases[n_mc:]) - set(mc))
    allc = mc + sim
    rng = random.Random(sd)
    rng.shuffle(allc)
    base = C.scratch_dir("c19")
    srcchk = SourceCheck(hp, tier, [f["deviation"] for f in rep.findings if f.get("deviation")])
    items = []
    for b, lo in enumerate(range(0, len(allc), BATCH)):
        chunk = allc[lo:lo + BATCH]
        flip = None
        if alter and lo <= alter < lo + len(chunk):
            flip = alter - lo
        items.append((base, sd * 1000003 + b, flip, chunk))
    totals = {"n": 0, "nt": 0, "open": 0, "failpred": 0, "builds": 0, "bisections": 0}
    samples, keys, distinct_nt = [], {}, set()
    skipped = {}
    bin_files = []
    bad = []
    try:
        t1 = time.time()
        res = C.proc_map(hp, work, items, chunk=1, workers=max(2, min(10, C.NCPU - 4)), timeout=T_LEAF)
        for x in res:
            if "stats" in x:
                totals["builds"] += x["stats"]["builds"]
                totals["bisections"] += x["stats"]["bisections"]
                if x["file"]:
                    bin_files.append((x["file"], x["fileexp"]))
                continue
            if "skipped" in x:
                skipped[x["skipped"]] = skipped.get(x["skipped"], 0) + 1
                continue
            totals["n"] += 1
            totals["open"] += x["open"]
            totals["failpred"] += x["failpred"]
            if x["nt"]:
                distinct_nt.add(x["expr"])
            if "bad" in x:
                bad.append(x)
            elif "sample" in x and len(samples) < 400:
                samples.append(x["sample"])
        C.log("[c19] %d calls replayed through %d builds (%d bisections) in %.0fs"
              % (totals["n"], totals["builds"], totals["bisections"], time.time() - t1))
        # a disagreement is confirmed on a fresh environment before it is reported (DESIGN 3.7(3))
        if os.environ.get("VERIF_C19_DUMP"):       # triage aid: every disagreement of the run, one JSON line each
            with open(os.environ["VERIF_C19_DUMP"], "w", encoding="utf-8") as fh:
                for x in bad:
                    fh.write(json.dumps({"key": x["bad"], "info": x["info"]}, ensure_ascii=False) + "\n")
        confirmed = {}
        for x in bad:
            k = x["bad"]
            keys[k] = keys.get(k, 0) + 1
            if confirmed.get(k, 0) < (2 if k.startswith("crash:") else 5):
                obs = observe_program(hp, x["info"]["program"], timeout=30 if k.startswith("crash:") else 120)
                if judge(obs, x["info"]["expect"]):
                    if k.startswith("crash:"):      # a time-out under load that a patient re-run does not show
                        C.log("[c19] time-out not reproduced, dropped: %s" % x["info"]["program"].splitlines()[-1][:200])
                        keys[k] -= 1
                        continue
                    raise C.ToolError("disagreement does not reproduce on a fresh environment: %s" % x["info"]["program"])
                confirmed[k] = confirmed.get(k, 0) + 1
            info = dict(x["info"])
            info["expect"] = {"ok": info["expect"]["ok"], "mayfail": info["expect"]["mayfail"]}
            rep.disagree(info, key=k)
        # 4. the std sources under Eval.tla (inside TLC): every disagreement with the reference is replayed on
        #    the real code (DESIGN 3.7(4)): the code siding with the reference means Eval.tla and the
        #    implementation differ on std's own source - a tool error, not a verdict
        sr = srcchk.finish()
        cmds.append(sr["cmd"])
        states += sr["distinct"]
        trans += sr["generated"]
        src_n = sr["n"] + len(sr["disagree"])
        configs.append("StdlibSrc (%s): %d calls of the std sources evaluated by Eval.tla in TLC, %d disagreements, "
                       "TLC %.0fs" % (srcchk.size, src_n, len(sr["disagree"]), sr["wall"]))
        C.log("[c19] StdlibSrc: %d source-level calls, %d disagreements, TLC %.0fs" % (src_n, len(sr["disagree"]), sr["wall"]))
        if sr["disagree"]:
            ds = sr["disagree"][:400]
            for d in ds:
                if "fam" not in d:
                    raise C.ToolError("unparsable DISAGREE line: %r" % (d,))
            h2 = C.Harness(hp, timeout=T_LEAF)
            out = work(h2, [(base, sd + 17, None, [json.dumps(d) for d in ds])])
            h2.close()
            for d, x in zip(ds, [y for y in out if "stats" not in y]):
                if "skipped" in x:
                    continue
                if "bad" in x and x["bad"].startswith("dev:"):
                    # the real code shows a recorded deviation, and so does its source under Eval.tla: model and code
                    # agree with each other and disagree with the reference.  The deviation is not open (an open one
                    # is admitted above) - a repaired defect is back: a verdict, reported under the deviation's key
                    keys[x["bad"]] = keys.get(x["bad"], 0) + 1
                    info = dict(x["info"])
                    info["source_under_Eval_tla"] = d["src"]
                    rep.disagree(info, key=x["bad"])
                    continue
                if "bad" not in x:
                    raise C.ToolError("the std source evaluated by Eval.tla yields %s for `%s`, which neither the reference "
                                      "nor an open deviation admits, but the real code yields %s: Eval.tla and the "
                                      "implementation differ on std's own source"
                                      % (json.dumps(d["src"], ensure_ascii=False)[:300], x["expr"],
                                         "the reference result" if "bad" not in x else "the recorded deviation"))
                k = "source:%s" % d["h"]
                keys[k] = keys.get(k, 0) + 1
                info = dict(x["info"])
                info["source_under_Eval_tla"] = d["src"]
                rep.disagree(info, key=k)
        # 5. the real binary on a seeded sample of whole batch files
        ucg = C.ensure_ucg()
        bin_files = rng.sample(bin_files, min(len(bin_files), 4 if tier == "quick" else 30))
        bin_runs = bin_vals = 0
        for path, nvals, problems, textv in run_binary(ucg, base, bin_files):
            bin_runs += 1
            bin_vals += nvals
            for key, msg in problems:
                keys[key] = keys.get(key, 0) + 1
                rep.disagree({"via": "ucg build + out json", "program": textv, "problem": msg}, key=key)
    finally:
        shutil.rmtree(base, ignore_errors=True)
        if srcchk.p.poll() is None:      # left early: do not leave the child's TLC behind
            srcchk.p.kill()
            shutil.rmtree(srcchk.gd, ignore_errors=True)

    if keys:
        C.log("[c19] disagreements by key: %s" % json.dumps(keys, sort_keys=True))
    if skipped:
        C.log("[c19] calls not run after repeated crashes / time-outs of their helper: %s" % json.dumps(skipped, sort_keys=True))
        if not any(k.startswith("crash:") for k in keys):
            raise C.ToolError("calls were skipped after time-outs but no crash was confirmed (machine overloaded?): %r" % skipped)
    code = rep.finish()
    srng = random.Random(sd)
    srng.shuffle(samples)
    by = {}
    for s in samples:
        by.setdefault(s["helper"], s)
    C.write_evidence(PID, tier, "model_checking", {
        "states": states, "transitions": trans,
        "traces_validated_against_impl": totals["n"],
        "evaluations": totals["n"],
        "distinct_nontrivial": len(distinct_nt),
        "rule": "every call the generator machine of Stdlib.tla produces (exhaustive at the stated bounds, plus a "
                "-simulate walk for lengths to 12 / 8 / 20) is refined (seeded: element ids -> mixed-type values, "
                "characters -> ASCII/Unicode, names -> identifiers/quoted names), bound in a generated file that "
                "imports std/*.ucg and built with FileBuilder::build (strict); non-trivial = distinct concrete call "
                "text whose first operand (list, tuple, string, maybe chain, composite value) is non-empty",
        "calls_exhaustive": len(mc), "calls_simulation": len(sim),
        "calls_per_helper": dict(sorted(perh.items())),
        "calls_predicted_to_fail": totals["failpred"], "calls_left_open": totals["open"],
        "builds": totals["builds"], "batches_bisected": totals["bisections"],
        "calls_skipped_after_repeated_crashes": sum(skipped.values()),
        "source_calls_evaluated_by_Eval_in_TLC": src_n, "source_disagreements": len(sr["disagree"]),
        "batch_files_through_ucg_binary": bin_runs, "values_checked_in_out_json": bin_vals,
        "samples": [by[k] for k in sorted(by)][:14] or samples[:3] or [{"note": "no agreeing call this run"}],
        "exhaustive": False,
        "exhaustive_note": "the model-checking configuration enumerates its bounded domain completely; the "
                           "simulation configuration and the refinement of ids are seeded samples",
        "checker_cmd": " ; ".join(cmds),
        "configs": configs,
        "known_findings_matched": sorted(rep.matched),
        "trusted_base": ["TLC", "vp/c19.py renderer/refinement/comparison", "harness op build",
                         "python json (out json sample)"],
    }, time.time() - t0, violations=len(rep.violations),
        assumptions=["calling conventions are those of std/tests/*.ucg and the doc comments (len/reverse/head/tail are "
                     "functions, the rest modules; `ops` wrappers as an alternative spelling); the docsite spells "
                     "reverse/len as modules, which is not what std/ ships",
                     "a selector/copy/call on the result of a call (`strings.wrap(s).split_on{..}`) is rejected by the "
                     "type checker in a let binding (recorded under C07); such calls are written as an argument of "
                     "functional.identity or as a list item, as std/tests writes them inside t.equal{..}",
                     "slice: start > end + 1 (an empty, reversed index range) may yield [] or fail; start < 0, "
                     "start > len, end >= len must fail (the module's own checks and strict indexing)",
                     "split_at with an index outside 0..len and substr with a negative index: the clamped result or "
                     "a failure; substr end beyond the string is the end of the string (std/tests)",
                     "parse_int of a string that does not start with a digit: a NULL maybe or a failure; digits "
                     "beyond i64 must fail",
                     "shaped/any/all: whether list elements are matched partially or exactly against the list "
                     "shape's members is open (both readings admitted; cases where they differ are counted as open)",
                     "str_join is exercised on strings, integers and booleans (their string representation is fixed "
                     "by the language reference); floats, NULL and composites inside str_join are C01's rendering",
                     "tuple results are compared with their field order (strip_nulls keeps the order of the source)",
                     "field names are distinct within a tuple; has_fields is asked about strings only",
                     "values through `out json` are compared only where JSON can carry them (no floats, |int| < 2^53)"])
    return code


if __name__ == "__main__":
    import sys
    if len(sys.argv) == 3 and sys.argv[1] == "srccheck":
        sys.exit(srccheck_main(sys.argv[2]))
    sys.exit(2)
