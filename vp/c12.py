"""C12 — XML output is well-formed and mirrors the document the program described.

Xml.tla is model-checked (XmlDoc total, ERROR exactly for the malformed documents,
xml.rs as transcribed agrees with the reference when no deviation is on, documents
built with std/xml.ucg's `tag` denote the same infoset) and every document tuple TLC
explores is replayed into the real converter, through

  direct   ConverterRegistry::get_converter("xml").convert(Val)      (harness `convert`)
  program  `let v = <expr>; let s = convert xml v; out xml v;` evaluated by
           FileBuilder::eval_string (harness `eval`), <expr> written with the
           std/xml.ucg constructors (xml.tag / xml.ns / xml.doc) wherever they accept the
           node, for a seeded sample of the documents with an ASCII refinement.

The bytes are read by an independent parser (expat: raw qualified names, xmlns
attributes and character data; ElementTree: namespace-aware second reading) and
compared with the infoset the specification predicts: names, nesting, attribute map,
namespaces in scope, every described text run verbatim at its position.  White space
the document did not describe (indentation) is ignored; a predicted ERROR must be an
error."""
import base64
import hashlib
import json
import os
import random
import re
import shutil
import time
import zlib

from . import common as C
from . import xmlmodel as X

PID = "C12"
INVS = ["XmlDocTotal", "ErrorIffMalformed", "ConvAgrees", "TagFormSame", "Emit", "EmitUsed"]
RESERVED = {"let", "module", "func", "out", "assert", "self", "import", "include", "as", "map",
            "filter", "convert", "fail", "NULL", "in", "is", "TRACE", "not", "select", "reduce",
            "true", "false", "env", "mod", "constraint"}

# ---- observations ---------------------------------------------------------------


class Obs:
    """('ok', bytes) | ('error', msg) | ('crash', msg) with cached parses"""

    def __init__(self, kind, data=b"", msg=""):
        self.kind = kind
        self.data = data
        self.msg = msg
        self._parsed = {}

    def parse(self, force):
        if force not in self._parsed:
            try:
                self._parsed[force] = ("ok", X.parse_xml(self.data, force))
            except X.NotWellFormed as e:
                self._parsed[force] = ("notwf", str(e))
        r = self._parsed[force]
        if r[0] == "notwf":
            raise X.NotWellFormed(r[1])
        return r[1]

    def text(self):
        if self.kind == "ok":
            return self.data.decode("utf-8", "replace")[:600]
        return "%s: %s" % (self.kind.upper(), self.msg[:300])


def obs_of_convert(r):
    if "crash" in r:
        return Obs("crash", msg="%s %s" % (r["crash"], r.get("msg", "")))
    if r.get("ok"):
        return Obs("ok", base64.b64decode(r["bytes_b64"]))
    return Obs("error", msg=str(r.get("err")))


def matches(out, obs, rf):
    """does the observation show the outcome `out` (Xml.tla Expect / Imp) ?  -> None | reason"""
    k = out["k"]
    if obs.kind == "crash":
        return "the converter crashed: %s" % obs.msg[:200]
    if k == "any":
        return None
    if k == "error":
        if obs.kind != "error":
            return "expected an error, got %d bytes of output" % len(obs.data)
        return None
    if k == "okany":
        return None if obs.kind == "ok" else "expected output, got an error"
    if k == "notwf":
        if obs.kind != "ok":
            return "expected output, got an error"
        try:
            obs.parse(None)
        except X.NotWellFormed:
            return None
        return "expected output that is not well-formed, but it parses"
    if obs.kind == "error":
        return None if out.get("lenient") else "unexpected error: %s" % obs.msg[:200]
    try:
        root, _decl = obs.parse("utf-8" if out["dec"] == "utf8bytes" else None)
    except X.NotWellFormed as e:
        return "output is not well-formed XML: %s" % e
    return X.el_mismatch(out["root"], root, rf)


def judge(exp, alts, rf, obs):
    """-> ('pass', None) | ('dev', (keys, why)) | ('bad', why)"""
    why = matches(exp, obs, rf)
    if why is None:
        return "pass", None
    # smallest set of recorded deviations that explains the observation
    for alt in sorted(alts, key=lambda a: (len(a["keys"]), sorted(a["keys"]))):
        if matches(alt["imp"], obs, rf) is None:
            return "dev", (sorted(alt["keys"]), why)
    return "bad", why


# ---- rendering a concrete document as a ucg program --------------------------------

def render_str(s):
    return '"' + s.replace("\\", "\\\\").replace('"', '\\"') + '"'


def render_key(nm):
    if re.fullmatch(r"[a-z][a-z0-9_]*", nm) and nm not in RESERVED:
        return nm
    return render_str(nm)


def render_val(v):
    t = v["t"]
    if t == "null":
        return "NULL"
    if t == "bool":
        return "true" if v["b"] else "false"
    if t == "int":
        return str(v["i"]) if v["i"] >= 0 else "(0 - %d)" % -v["i"]
    if t == "str":
        return render_str(v["s"])
    if t == "list":
        return "[" + ", ".join(render_val(e) for e in v["es"]) + "]"
    if t == "tuple":
        return "{" + ", ".join("%s = %s" % (render_key(f["nm"]), render_val(f["val"])) for f in v["fs"]) + "}"
    raise C.ToolError("unrenderable %r" % (v,))


def _fields(v):
    return {f["nm"]: f["val"] for f in v["fs"]}


def tag_eligible(n):
    """would std/xml.ucg's `tag` build this element tuple ?"""
    if n["t"] != "tuple":
        return False
    fs = _fields(n)
    if len(fs) != len(n["fs"]) or not set(fs) <= {"name", "attrs", "children", "ns"} or "name" not in fs:
        return False
    if fs["name"]["t"] != "str" or fs["name"]["s"] == "":
        return False
    if "attrs" in fs and fs["attrs"]["t"] != "tuple":
        return False
    if "children" in fs and fs["children"]["t"] != "list":
        return False
    if "ns" in fs:
        ns = fs["ns"]
        if ns["t"] == "tuple":
            nf = _fields(ns)
            if set(nf) != {"prefix", "uri"} or len(ns["fs"]) != 2 or any(x["t"] != "str" for x in nf.values()):
                return False
        elif ns["t"] != "str":
            return False
    return True


PRELUDE = 'let x = import "std/xml.ucg";\n'


class Render:
    """Renders a concrete document as ucg source.  ucg's parser takes time exponential in
    the nesting depth of tuple / list literals (3 nested element literals: 15 s), so
    element nodes are bound bottom-up with `let` unless the whole tree is written with
    constructors (module instantiation parses in linear time)."""

    def __init__(self, use_ctor, inline):
        self.use_ctor = use_ctor
        self.inline = inline
        self.lets = []

    def bind(self, text):
        if self.inline:
            return text
        nm = "n%d" % (len(self.lets) + 1)
        self.lets.append("let %s = %s;\n" % (nm, text))
        return nm

    def node(self, n):
        """-> (expression text, the value the expression evaluates to)"""
        if self.use_ctor and tag_eligible(n):
            fs = _fields(n)
            parts = ["name = " + render_str(fs["name"]["s"])]
            exp = [{"nm": "name", "val": fs["name"]}]
            if "attrs" in fs:
                parts.append("attrs = " + render_val(fs["attrs"]))
                exp.append({"nm": "attrs", "val": fs["attrs"]})
            else:
                exp.append({"nm": "attrs", "val": {"t": "tuple", "fs": []}})
            kids = []
            if "children" in fs:
                rk = [self.node(k) for k in fs["children"]["es"]]
                parts.append("children = [" + ", ".join(t for t, _ in rk) + "]")
                kids = [e for _, e in rk]
            exp.append({"nm": "children", "val": {"t": "list", "es": kids}})
            if "ns" in fs:
                ns = fs["ns"]
                if ns["t"] == "str":
                    parts.append("ns = x.ns(%s, NULL)" % render_str(ns["s"]))
                    exp.append({"nm": "ns", "val": ns})
                else:
                    nf = _fields(ns)
                    parts.append("ns = x.ns(%s, %s)" % (render_str(nf["prefix"]["s"]), render_str(nf["uri"]["s"])))
                    exp.append({"nm": "ns", "val": {"t": "tuple", "fs": [{"nm": "prefix", "val": nf["prefix"]},
                                                                      {"nm": "uri", "val": nf["uri"]}]}})
            return self.bind("x.tag{" + ", ".join(parts) + "}"), {"t": "tuple", "fs": exp}
        if n["t"] == "tuple" and any(f["nm"] == "name" for f in n["fs"]):
            # an element the constructor would not take: literal tuple, children rendered node by node
            parts, exp = [], []
            for f in n["fs"]:
                if f["nm"] == "children" and f["val"]["t"] == "list":
                    rk = [self.node(k) for k in f["val"]["es"]]
                    parts.append("children = [" + ", ".join(t for t, _ in rk) + "]")
                    exp.append({"nm": "children", "val": {"t": "list", "es": [e for _, e in rk]}})
                else:
                    parts.append("%s = %s" % (render_key(f["nm"]), render_val(f["val"])))
                    exp.append(f)
            return self.bind("{" + ", ".join(parts) + "}"), {"t": "tuple", "fs": exp}
        return render_val(n), n

    def doc(self, val):
        """-> (expression text for the document, the value it evaluates to)"""
        if val["t"] != "tuple":
            return render_val(val), val
        names = [f["nm"] for f in val["fs"]]
        if self.use_ctor and names == ["root"] and tag_eligible(val["fs"][0]["val"]):
            t, e = self.node(val["fs"][0]["val"])
            return "x.doc(%s)" % t, {"t": "tuple", "fs": [{"nm": "root", "val": e}]}
        parts, exp = [], []
        for f in val["fs"]:
            if f["nm"] == "root":
                t, e = self.node(f["val"])
                parts.append("root = " + t)
                exp.append({"nm": "root", "val": e})
            else:
                parts.append("%s = %s" % (render_key(f["nm"]), render_val(f["val"])))
                exp.append(f)
        return "{" + ", ".join(parts) + "}", {"t": "tuple", "fs": exp}


def all_elements_eligible(n):
    if n["t"] == "tuple" and any(f["nm"] == "name" for f in n["fs"]):
        if not tag_eligible(n):
            return False
        for f in n["fs"]:
            if f["nm"] == "children" and f["val"]["t"] == "list":
                if not all(all_elements_eligible(k) for k in f["val"]["es"]):
                    return False
    return True


def render_program(val, cid):
    """-> (program head binding `v`, the value `v` must evaluate to)"""
    use_ctor = (cid // 3) % 4 != 0              # a quarter of the sample as plain tuple literals
    root = next((f["val"] for f in val["fs"] if f["nm"] == "root"), None) if val["t"] == "tuple" else None
    inline = use_ctor and (cid // 12) % 2 == 0 and root is not None and all_elements_eligible(root)
    r = Render(use_ctor, inline)
    text, expv = r.doc(val)
    return PRELUDE + "".join(r.lets) + "let v = %s;\n" % text, expv


def val_same(a, b):
    if a["t"] != b.get("t"):
        return False
    t = a["t"]
    if t == "null":
        return True
    if t == "bool":
        return a["b"] == b["b"]
    if t == "int":
        return a["i"] == b["i"]
    if t == "str":
        return a["s"] == b["s"]
    if t == "list":
        return len(a["es"]) == len(b["es"]) and all(val_same(x, y) for x, y in zip(a["es"], b["es"]))
    if t == "tuple":
        return (len(a["fs"]) == len(b["fs"])
                and all(x["nm"] == y["nm"] and val_same(x["val"], y["val"]) for x, y in zip(a["fs"], b["fs"])))
    return False


def ascii_only(v):
    if v["t"] == "str":
        return all(32 <= ord(ch) < 127 or ch in "\n\t\r" for ch in v["s"])
    if v["t"] == "list":
        return all(ascii_only(e) for e in v["es"])
    if v["t"] == "tuple":
        return all(ascii_only({"t": "str", "s": f["nm"]}) and ascii_only(f["val"]) for f in v["fs"])
    return True




def program_sampled(cid, tier):
    return tier == "replay" or cid % (3 if tier == "quick" else 2) == 0


# ---- one chunk of cases (worker process) --------------------------------------------

def prepare(obj, seed):
    cid = X.case_id(obj["doc"])
    rf = X.Refiner(seed, cid)
    val = X.refine_value(obj["doc"], rf)
    return cid, rf, val


def corrupt_prediction(exp):
    """binding demo: change one predicted outcome"""
    if exp["k"] == "doc":
        r = exp["root"]
        if r["kids"]:
            r["kids"] = r["kids"][1:]
        elif r["attrs"]:
            r["attrs"] = r["attrs"][1:]
        else:
            r["kids"] = [{"k": "text", "segs": [{"sc": "plain", "at": [99], "via": "exact"}]}]
        return exp
    return {"k": "doc", "dec": "label", "lenient": False, "enc": "-", "ver": "-",
            "root": {"k": "el", "nm": {"sc": "e1", "at": [1, 1]}, "attrs": [], "kids": [],
                     "ns": {"d": "none", "p": "none", "q": "none"}}}


def mk_case(obj, seed, val, route, exp, obs, why, prog=None):
    c = {"abstract": obj, "seed": seed, "value": val, "route": route, "expected": exp["k"], "why": why}
    if obs is not None:
        c["observed"] = obs.text()
    if prog is not None:
        c["program"] = prog
    return c


def work(h, chunk):
    """list of (replay object, seed, alter, tier) -> result rows"""
    rows = []
    prepared = []
    reqs = []
    for obj, seed, alter, tier in chunk:
        if isinstance(obj, str):          # raw REPLAY payload: parsed here, not in the main process
            obj = C.parse_replay_payload(obj)
        cid, rf, val = prepare(obj, seed)
        exp = obj["exp"]
        if alter:
            exp = corrupt_prediction(json.loads(json.dumps(exp)))
        plan = [("direct", len(reqs), None)]
        reqs.append({"op": "convert", "fmt": "xml", "val": val})
        prog = None
        if program_sampled(cid, tier) and ascii_only(val):
            head, expv = render_program(val, cid)
            prog = (head, expv)
            plan.append(("program-value", len(reqs), head))
            reqs.append({"op": "eval", "src": head})
            if exp["k"] == "error":
                plan.append(("program-convert", len(reqs), head + "let s = convert xml v;\n"))
                reqs.append({"op": "eval", "src": head + "let s = convert xml v;\n"})
                plan.append(("program-out", len(reqs), head + "out xml v;\n"))
                reqs.append({"op": "eval", "src": head + "out xml v;\n"})
            else:
                plan.append(("program", len(reqs), head + "let s = convert xml v;\nout xml v;\n"))
                reqs.append({"op": "eval", "src": head + "let s = convert xml v;\nout xml v;\n"})
        prepared.append((obj, seed, cid, rf, val, exp, plan, prog))
    resps = h.batch(reqs)
    kept = {}
    for obj, seed, cid, rf, val, exp, plan, prog in prepared:
        alts = obj.get("alts", [])
        n_checked = 0
        prog_state = "none"
        observations = []
        value_ok = True
        for route, ix, src in plan:
            r = resps[ix]
            if route == "direct":
                observations.append(("direct", obs_of_convert(r), None))
                continue
            if "crash" in r:
                observations.append((route, Obs("crash", msg="%s %s" % (r["crash"], r.get("msg", ""))), src))
                continue
            out = r.get("out", {})
            if route == "program-value":
                if out.get("k") != "ok":
                    value_ok = False        # the constructors (or the literal) refuse the document
                    prog_state = "rejected"
                    continue
                bound = {f["nm"]: f["val"] for f in out["val"].get("fs", [])}
                if "v" not in bound or not val_same(prog[1], bound["v"]):
                    value_ok = False        # the expression did not evaluate to the intended value
                    prog_state = "other-value"
                    continue
                prog_state = "ok"
                continue
            if not value_ok:
                continue
            if out.get("k") == "ok":
                bound = {f["nm"]: f["val"] for f in out["val"].get("fs", [])}
                if route in ("program", "program-convert"):
                    s = bound.get("s")
                    if s is None or s.get("t") != "str":
                        observations.append((route + ":convert", Obs("error", msg="no string bound"), src))
                    else:
                        observations.append((route + ":convert", Obs("ok", s["s"].encode("utf-8")), src))
                if route in ("program", "program-out"):
                    observations.append((route + ":out", Obs("ok", r.get("stdout", "").encode("utf-8")), src))
            else:
                observations.append((route, Obs("error", msg=out.get("msg", "")), src))
        verdicts = []
        for oroute, obs, src in observations:
            n_checked += 1
            verdict, info = judge(exp, alts, rf, obs)
            verdicts.append(verdict)
            if verdict == "dev":
                for key in info[0]:
                    kept[key] = kept.get(key, 0) + 1
                    rows.append(("dev", key, mk_case(obj, seed, val, oroute, exp, obs, info[1], src)
                                 if kept[key] <= 2 else {"note": "same deviation as an earlier case of this run"}))
            elif verdict == "bad":
                kept[None] = kept.get(None, 0) + 1
                rows.append(("bad", mk_case(obj, seed, val, oroute, exp, obs, info, src) if kept[None] <= 20 else
                             {"route": oroute, "why": info, "value": {}, "note": "case not kept"}))
            elif alts and oroute == "direct":
                rows.append(("stale", ",".join(sorted(max(alts, key=lambda a: len(a["keys"]))["keys"])),
                             json.dumps(val, ensure_ascii=False)[:600]))
        sample = None
        if cid % 1499 == 0 or (alts and cid % 97 == 0):
            sample = {"document": val, "predicted": exp["k"], "deviations": [sorted(a["keys"]) for a in alts],
                      "xml": observations[0][1].text()}
            if prog and prog_state == "ok":
                sample["program"] = prog[0]
        rows.append(("n", n_checked, prog_state, X.count_nodes(obj["doc"]), X.case_id(val), exp["k"], sample,
                     X.elem_depth(obj["doc"]), 1 if exp.get("lenient") else 0))
    return rows


# ---- configurations -----------------------------------------------------------------

CORE = ["n:e1", "tf:bare", "tf:tt", "t:plain", "t:markup"]
NS_CORE = ["n:e1", "n:pe1", "n:qe1", "ns:d1", "ns:d2", "ns:p1", "ns:p2", "ns:q1"]
ENC_CORE = ["n:e1", "n:eu", "enc:latin1", "enc:utf8", "enc:utf16", "ver:v10", "ver:v11", "sa:yes", "sa:no",
            "t:uni", "t:plain", "tf:bare", "av:uni", "t:ctrl"]
PAIR_CORE = ["n:e1", "tf:bare", "t:plain"]


def sim_configs(gd, n, traces, seed):
    """TLC's simulator picks among the enabled choices, so a configuration with every
    feature enabled hardly ever closes an element.  Each simulation configuration works
    on a seeded sample of the features; the union over configurations and seeds covers
    them."""
    rng = random.Random("c12sim:%d" % seed)
    pool = [f for f in X.ALL_FEATURES if f not in ("n:e1", "tf:bare", "tf:tt", "t:plain")]
    wellformed = [f for f in pool if f not in X.MALFORMED_FEATURES]
    # features that trigger a recorded deviation only from the budget too: Emit enumerates the subsets
    # of the deviations that matter for a document (2^n implementations)
    triggers = {"t:cr", "av:tab", "ns:damp", "ns:pamp", "t:ctrl", "av:ctrl", "enc:latin1", "enc:utf16"}
    calm = [f for f in wellformed if f not in triggers]
    runs = []
    for k in range(n):
        # malformed pieces only from the budget: a free one would make nearly every document an ERROR
        core = ["n:e1", "tf:bare", "tf:tt", "t:plain"] + rng.sample(calm, 5)
        rare = rng.sample([f for f in wellformed if f not in core], 8) + rng.sample(X.MALFORMED_FEATURES, 2)
        name = "sim%d" % k
        X.write_cfg(gd, name, 4, 4, 12, 3, core, rare, INVS)
        runs.append(("sim", name, traces, 80,
                     "simulation: documents of <=12 nodes, element depth <=4, <=4 children; free features %s, "
                     "<=3 of %s" % (core, rare)))
    return runs


def configs(tier, gd):
    rest = lambda core: [f for f in X.ALL_FEATURES if f not in core]
    runs = []
    if tier == "quick":
        X.write_cfg(gd, "mc_feat", 3, 3, 4, 1, CORE, rest(CORE), INVS)
        runs.append(("mc", "mc_feat", None, None,
                     "exhaustive: documents of <=4 nodes, element depth <=3, <=3 children; plain/markup text as bare "
                     "strings and {text=} nodes free + <=1 of the %d other features (names, ns, attrs, text classes, "
                     "NULL/empty attrs and children, declaration fields, every malformed kind)" % len(rest(CORE))))
        X.write_cfg(gd, "mc_ns", 3, 2, 3, 0, NS_CORE, [], INVS)
        runs.append(("mc", "mc_ns", None, None,
                     "exhaustive: element trees of <=3 elements, depth <=3 over default/prefixed namespace "
                     "declarations (2 URIs, prefixes p q) and prefixed names, all combinations"))
        X.write_cfg(gd, "mc_enc", 2, 2, 3, 0, ENC_CORE, [], INVS)
        runs.append(("mc", "mc_enc", None, None,
                     "exhaustive: version x encoding x standalone x documents of <=3 nodes with non-ASCII names, "
                     "text, attribute values and forbidden characters"))
        X.write_cfg(gd, "mc_pair", 2, 2, 2, 2, PAIR_CORE, rest(PAIR_CORE), INVS)
        runs.append(("mc", "mc_pair", None, None,
                     "exhaustive: documents of <=2 nodes with <=2 of the %d features (all pairs)" % len(rest(PAIR_CORE))))
        runs += sim_configs(gd, 2, 60, C.seed())
    else:
        X.write_cfg(gd, "mc_feat", 3, 3, 5, 1, CORE, rest(CORE), INVS)
        runs.append(("mc", "mc_feat", None, None,
                     "exhaustive: documents of <=5 nodes, element depth <=3, <=3 children; plain/markup text as bare "
                     "strings and {text=} nodes free + <=1 of the %d other features" % len(rest(CORE))))
        X.write_cfg(gd, "mc_ns", 3, 3, 4, 0, NS_CORE, [], INVS)
        runs.append(("mc", "mc_ns", None, None,
                     "exhaustive: element trees of <=4 elements, depth <=3 over default/prefixed namespace "
                     "declarations (2 URIs, prefixes p q) and prefixed names, all combinations"))
        X.write_cfg(gd, "mc_enc", 3, 2, 4, 0, ENC_CORE, [], INVS)
        runs.append(("mc", "mc_enc", None, None,
                     "exhaustive: version x encoding x standalone x documents of <=4 nodes with non-ASCII names, "
                     "text, attribute values and forbidden characters"))
        X.write_cfg(gd, "mc_pair", 3, 2, 3, 2, PAIR_CORE, rest(PAIR_CORE), INVS)
        runs.append(("mc", "mc_pair", None, None,
                     "exhaustive: documents of <=3 nodes with <=2 of the %d features (all pairs)" % len(rest(PAIR_CORE))))
        runs += sim_configs(gd, 10, 300, C.seed())
    return runs


# ---- replay of one recorded case ------------------------------------------------------

def do_replay(hp, path):
    blob = json.load(open(path))
    case = blob["case"]
    h = C.Harness(hp)
    obj = case["abstract"]
    # every route, whatever the sampling of the original run was
    rows = work(h, [(obj, case.get("seed", C.seed()), False, "replay")])
    h.close()
    bad = [r for r in rows if r[0] == "bad"]
    dev = [r for r in rows if r[0] == "dev"]
    known = {f.get("key"): f for f in C.load_findings(PID)}
    unknown = [r for r in dev if r[1] not in known]
    ok = not bad and not unknown
    print("replay %s: %s" % (path, "agrees with the specification" if not bad and not dev else
                             ("disagrees only by recorded deviations" if ok else "DISAGREES")))
    for r in bad:
        print("  %s: %s" % (r[1]["route"], r[1]["why"]))
    for r in dev:
        print("  %s: %s deviation %s: %s" % (r[2]["route"], "recorded" if r[1] in known else "UNRECORDED", r[1], r[2]["why"]))
    for k in sorted(set(r[1] for r in dev if r[1] in known)):
        print("KNOWN-FINDING: property=%s key=%s %s" % (PID, k, known[k].get("what", "")))
    if not ok:
        print("VIOLATION property=%s replay=%s" % (PID, path))
    return 0 if ok else 1


# ---- main -------------------------------------------------------------------------------

def main(tier, replay=None):
    t0 = time.time()
    X.check_tables()
    hp = C.ensure_harness()
    if replay:
        return do_replay(hp, replay)
    rep = C.Reporter(PID)
    sd = C.seed()
    gd = C.gen_dir("c12")
    with open(os.path.join(gd, "MC_Xml.tla"), "w") as f:
        f.write("---- MODULE MC_Xml ----\nEXTENDS Xml\n====\n")
    runs = configs(tier, gd)
    alter_demo = os.environ.get("VERIF_C12_ALTER") == "1"

    states = trans = 0
    cmds = []
    seen = set()             # digests of the REPLAY payloads replayed so far
    used_all = set()
    sim_dropped = 0
    n_cases = 0
    first_case = None
    evals = 0
    nontriv = set()
    samples = []
    dev_samples = []
    devcount = {}
    clusters = {}
    stale = {}
    bydepth = {}
    bykind = {}
    prog_states = {}

    def consume(rows):
        nonlocal evals
        for x in rows:
            if x[0] == "bad":
                rep.disagree(x[1], key=None)
                sig = x[1]["route"].split(":")[0] + ": " + re.sub(
                    r"[0-9]+", "N", re.sub(r"'[^']*'|\"[^\"]*\"", "S", str(x[1]["why"])))[:100]
                clusters.setdefault(sig, []).append(x[1])
            elif x[0] == "dev":
                devcount[x[1]] = devcount.get(x[1], 0) + 1
                rep.disagree(x[2], key=x[1])
            elif x[0] == "stale":
                vs = stale.setdefault(x[1], [0, x[2]])
                vs[0] += 1
            else:
                _, n, pstate, nodes, vid, k, sample, dep, lenient = x
                evals += n
                prog_states[pstate] = prog_states.get(pstate, 0) + 1
                bydepth[str(dep)] = bydepth.get(str(dep), 0) + 1
                bykind[k + ("/lenient" if lenient else "")] = bykind.get(k + ("/lenient" if lenient else ""), 0) + 1
                if nodes >= 2:
                    nontriv.add(vid)
                if sample and len(samples) + len(dev_samples) < 400:
                    (dev_samples if sample["deviations"] else samples).append(sample)

    digest = lambda raw: hashlib.blake2b(raw.encode(), digest_size=10).digest()
    for kind, name, num, depth, what in runs:
        count = [0]
        used_raw = set()
        fresh = set()

        def on_raw(raw, count=count, used_raw=used_raw, fresh=fresh):
            if raw.startswith('{\\"used\\"'):
                used_raw.add(raw)
                return
            count[0] += 1
            # the payload of a REPLAY line is a function of the document: distinct payloads = distinct documents
            if raw not in fresh and digest(raw) not in seen:
                fresh.add(raw)
        r = C.run_tlc("MC_Xml", name, workers=6, simulate=num, depth=depth, gendir=gd, timeout=3000, heap="4g",
                      on_raw=on_raw)
        cmds.append(r.cmd)
        if r.violation:
            raise C.ToolError("Xml.tla: %s violated in %s -- the reference and the transcription of xml.rs disagree "
                              "inside the model; inspect before trusting replay.\n%s" % (r.violation, what, r.errtext[:3000]))
        C.require_tlc_ok(r, what)
        states += r.distinct or r.generated
        trans += r.generated
        # TLC's simulator evaluates the invariants on every successor it generates (e.g. all the
        # declaration variants of a finished tree): replay a seeded subsample of what is new
        cap = None if kind == "mc" else (10000 if tier == "quick" else 30000)
        if cap is not None and len(fresh) > cap:
            ranked = sorted(fresh, key=lambda raw: (zlib.crc32(("%d:" % sd).encode() + raw.encode()), raw))
            sim_dropped += len(fresh) - cap
            fresh = set(ranked[:cap])
        used = set()
        for raw in used_raw:
            used |= set(C.parse_replay_payload(raw)["used"])
        used_all |= used
        missing = [f for f in X.CFG_FEATURES[name] if f not in used]
        if missing and kind == "mc":     # e.g. a prefixed name costs two units (declaration + name)
            C.log("[c12] %s: features out of reach of this configuration: %s" % (name, missing))
        cases = sorted(fresh)                                            # determinism per seed
        fresh = None
        for raw in cases:
            seen.add(digest(raw))
        if cases and first_case is None:
            first_case = cases[0]
        t1 = time.time()
        items = [(o, sd, alter_demo and n_cases + i == 7, tier) for i, o in enumerate(cases)]
        n_cases += len(cases)
        consume(C.proc_map(hp, work, items, chunk=300, workers=6, timeout=60.0))
        C.log("[c12] %s: %d states, %d documents (%d new), %d/%d features used, TLC %.0fs, replay %.0fs"
              % (what[:100], r.distinct or r.generated, count[0], len(cases), len(used),
                 len(X.CFG_FEATURES[name]), r.wall, time.time() - t1))
        items = cases = None
    shutil.rmtree(gd, ignore_errors=True)
    if not n_cases:
        raise C.ToolError("TLC emitted no document (vacuous run)")
    never = [f for f in X.ALL_FEATURES if f not in used_all]
    if never:
        raise C.ToolError("vacuous: generator features never used in this run: %s" % never)
    for sig, cs in sorted(clusters.items(), key=lambda kv: -len(kv[1]))[:40]:
        C.log("[c12] unexplained x%d: %s   e.g. %s -> %r" % (len(cs), sig, json.dumps(cs[0]["value"], ensure_ascii=False)[:300],
                                                     cs[0].get("observed", "")[:200]))
    for k, n in sorted(devcount.items()):
        C.log("[c12] recorded deviation %s observed on %d observation(s)" % (k, n))
    stale_by_key = {}
    for k, (n, eg) in stale.items():
        for key in k.split(","):
            e = stale_by_key.setdefault(key, [0, eg])
            e[0] += n
    for k, (n, eg) in sorted(stale_by_key.items()):
        C.log("[c12] deviation %s predicted but the property held on %d document(s), e.g. %s" % (k, n, eg[:300]))

    code = rep.finish()
    samples = samples[:5] + dev_samples[:3]
    if not samples:
        o = C.parse_replay_payload(first_case)
        samples = [{"document": X.refine_value(o["doc"], X.Refiner(sd, X.case_id(o["doc"]))), "predicted": o["exp"]["k"]}]
    C.write_evidence(PID, tier, "model_checking", {
        "states": states, "transitions": trans,
        "traces_validated_against_impl": evals,
        "evaluations": evals,
        "distinct_nontrivial": len(nontriv),
        "rule": "every document tuple TLC explores is refined (seeded member per string class and position; prefixes "
                "and URIs per document), converted by the real xml converter (direct Val route always; for a third "
                "of the ASCII-refined documents also `convert xml` and `out xml` in programs written with the "
                "std/xml.ucg constructors), parsed by expat/ElementTree and compared with the infoset Xml.tla "
                "predicts; one evaluation = one (document, route) observation judged; non-trivial = distinct concrete "
                "document with >= 2 nodes",
        "samples": samples,
        "documents": n_cases,
        "simulated_documents_not_replayed": sim_dropped,
        "generator_features_used": len(used_all),
        "generator_features": len(X.ALL_FEATURES),
        "documents_by_element_depth": dict(sorted(bydepth.items())),
        "documents_by_predicted_outcome": dict(sorted(bykind.items())),
        "program_route": prog_states,
        "deviation_predicted_but_property_held": {k: v[0] for k, v in sorted(stale_by_key.items())},
        "known_deviation_cases": devcount,
        "exhaustive": False,
        "exhaustive_note": "the mc_* configurations enumerate their bounded document domain completely; string "
                           "classes are sampled (one member per string, position and seed) and the sim* "
                           "configurations sample",
        "checker_cmd": " ; ".join(cmds),
        "configs": [w for _, _, _, _, w in runs],
        "trusted_base": ["TLC", "vp/xmlmodel.py refinement tables, projection of the parse and comparison",
                         "expat %s (pyexpat), xml.etree.ElementTree" % ".".join(map(str, X.expat.version_info)),
                         "harness Val construction (harness/src/proj.rs val_from_json)"],
    }, time.time() - t0, violations=len(rep.violations),
        assumptions=[
            "element names, attribute names and prefixes are valid XML names (NCNames, not starting with 'xml'); a "
            "prefix is only used where the document declares it (precondition of the property)",
            "tuple keys are unique; no fields beyond the ones the reference defines; `ns` is absent, a string or "
            "{prefix, uri} with non-empty strings; `standalone` is absent or a boolean; {text=NULL} is not generated",
            "white-space-only character data at a position where the document describes no text is indentation and "
            "ignored; comments and processing instructions would be ignored; redundant namespace declarations are not "
            "compared (namespaces IN SCOPE of every element are)",
            "the XML declaration (version/encoding/standalone) is only used to decode the bytes; whether it repeats "
            "the given fields is not compared (the statement speaks of the tree)",
            "a string with a character outside the XML 1.0 Char production: version 1.0 (or none) must be an error; "
            "with version 1.1 any outcome is accepted (the parser used as oracle reads XML 1.0); U+0085 and U+2028 are "
            "not generated (XML 1.1 line ends)",
            "an encoding other than UTF-8 (ISO-8859-1, UTF-16) may be honoured or refused",
            "program route: ASCII refinements only (non-ASCII literals are re-read byte-wise by the tokenizer, C11); a "
            "document the std/xml.ucg constructors refuse, or whose expression does not evaluate to the intended "
            "value, is skipped on that route",
        ])
    return code
