"""Minimal JSON-RPC client for `ucg lsp` (Content-Length framed messages over
stdio).  Python stdlib only.

Determinism: the server is single-threaded and handles its input strictly in
order, so the client never relies on wall-clock ordering.  A caller sends
message n+1 only after the outputs message n must produce have arrived
(`wait_response`, `wait_publish`); for a message that produces no output it
sends a *fence* request (`fence()`): everything the earlier message could have
produced precedes the fence's response.  Time-outs only bound the wait for an
output that MUST come; running into one is an observation ("hang"), like the
death of the process ("died") — never a tool error.
"""
import json
import os
import queue
import subprocess
import threading
import time
from urllib.parse import quote


class ServerGone(Exception):
    """The server process ended (or stopped answering) while an output was due."""

    def __init__(self, kind, detail=""):
        Exception.__init__(self, "%s %s" % (kind, detail))
        self.kind = kind          # "died" | "hang"
        self.detail = detail


def path_to_uri(path):
    return "file://" + quote(path)


class LspServer:
    def __init__(self, ucg, root, home, stderr_path=None, timeout=20.0):
        self.ucg = ucg
        self.root = root
        self.home = home
        self.timeout = timeout
        self.stderr_path = stderr_path
        self.p = None
        self.q = queue.Queue()
        self.next_id = 0
        self.backlog = []          # messages read while waiting for something else
        self.on_message = None     # callback(direction, msg) for recording
        self.garbage = None

    # ---- process ---------------------------------------------------------
    def start(self):
        env = dict(os.environ)
        env["HOME"] = self.home
        env.pop("RUST_BACKTRACE", None)
        self._errf = open(self.stderr_path, "wb") if self.stderr_path else subprocess.DEVNULL
        self.p = subprocess.Popen([self.ucg, "lsp"], stdin=subprocess.PIPE, stdout=subprocess.PIPE,
                                  stderr=self._errf, cwd=self.root, env=env)
        self._reader = threading.Thread(target=self._read_loop, daemon=True)
        self._reader.start()

    def _read_loop(self):
        f = self.p.stdout
        try:
            while True:
                length = None
                while True:
                    line = f.readline()
                    if not line:
                        self.q.put(None)
                        return
                    line = line.strip()
                    if not line:
                        break
                    k, _, v = line.partition(b":")
                    if k.strip().lower() == b"content-length":
                        length = int(v.strip())
                if length is None:
                    self.garbage = "frame without Content-Length"
                    self.q.put(None)
                    return
                body = b""
                while len(body) < length:
                    chunk = f.read(length - len(body))
                    if not chunk:
                        self.q.put(None)
                        return
                    body += chunk
                try:
                    self.q.put(json.loads(body.decode("utf-8")))
                except Exception as e:   # not JSON / not UTF-8: an observation
                    self.garbage = "undecodable frame: %s" % e
                    self.q.put(None)
                    return
        except Exception:
            self.q.put(None)

    def alive(self):
        return self.p is not None and self.p.poll() is None

    def stderr_text(self):
        if not self.stderr_path:
            return ""
        try:
            self._errf.flush()
        except Exception:
            pass
        try:
            return open(self.stderr_path, "r", errors="replace").read()[-2000:]
        except Exception:
            return ""

    # ---- sending ---------------------------------------------------------
    def _send(self, msg):
        data = json.dumps(msg, ensure_ascii=False).encode("utf-8")
        try:
            self.p.stdin.write(b"Content-Length: %d\r\n\r\n" % len(data) + data)
            self.p.stdin.flush()
        except (BrokenPipeError, OSError, ValueError):
            raise ServerGone("died", "write failed; status %r" % (self._status(),))

    def _status(self):
        try:
            return self.p.wait(timeout=5)
        except Exception:
            return None

    def notify(self, method, params):
        self._send({"jsonrpc": "2.0", "method": method, "params": params})

    def request(self, method, params):
        self.next_id += 1
        self._send({"jsonrpc": "2.0", "id": self.next_id, "method": method, "params": params})
        return self.next_id

    # ---- receiving -------------------------------------------------------
    def _next(self, deadline):
        """Next message from the server, in arrival order."""
        left = deadline - time.time()
        try:
            m = self.q.get(timeout=max(0.0, left))
        except queue.Empty:
            raise ServerGone("hang", "no output within %.0fs" % self.timeout)
        if m is None:
            self.q.put(None)   # stays dead for later callers
            raise ServerGone("died", (self.garbage or "stdout closed") + "; status %r" % (self._status(),))
        if self.on_message:
            self.on_message(m)
        return m

    def wait_for(self, pred, timeout=None):
        """Read messages in order until pred(msg); the others are returned too
        (they have already been passed to on_message in arrival order)."""
        deadline = time.time() + (timeout or self.timeout)
        skipped = []
        while True:
            m = self._next(deadline)
            if pred(m):
                return m, skipped
            skipped.append(m)

    def wait_response(self, rid, timeout=None):
        return self.wait_for(lambda m: "method" not in m and m.get("id") == rid, timeout)

    def wait_publish(self, uri, timeout=None):
        return self.wait_for(lambda m: m.get("method") == "textDocument/publishDiagnostics"
                             and m.get("params", {}).get("uri") == uri, timeout)

    def fence(self):
        """A request whose answer proves that everything sent before it has
        been handled (the server is sequential)."""
        rid = self.request("workspace/symbol", {"query": "\u0001no-such-symbol\u0001"})
        return self.wait_response(rid)

    # ---- life cycle --------------------------------------------------------
    def initialize(self):
        rid = self.request("initialize", {
            "processId": os.getpid(), "rootUri": path_to_uri(self.root), "capabilities": {}})
        m, _ = self.wait_response(rid, timeout=max(self.timeout, 60.0))
        self.notify("initialized", {})
        return m

    def shutdown(self):
        """Orderly shutdown; returns the exit status (None if it had to be killed)."""
        rc = None
        try:
            rid = self.request("shutdown", None)
            self.wait_response(rid, timeout=10)
            self.notify("exit", None)
            rc = self.p.wait(timeout=10)
        except Exception:
            pass
        self.kill()
        return rc

    def kill(self):
        if self.p is not None:
            try:
                self.p.kill()
            except Exception:
                pass
            try:
                self.p.wait(timeout=5)
            except Exception:
                pass
            for f in (self.p.stdin, self.p.stdout):
                try:
                    f.close()
                except Exception:
                    pass
        if self._errf not in (None, subprocess.DEVNULL):
            try:
                self._errf.close()
            except Exception:
                pass
