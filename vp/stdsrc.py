"""C19 growth: the helpers' own source as data for TLC.

std/{lists,tuples,strings,functional,schema}.ucg of the repository's working
tree are parsed by the harness op `parse` and converted to the AST records of
spec/Eval.tla (names and strings as character sequences), so that StdlibSrc.tla
can evaluate the helpers with the language reference (Eval.tla) inside TLC and
compare with the reference definitions of Stdlib.tla.

Eval.tla has no files.  Imports and `mod.pkg` are expressed with what it has
(pure syntax, done here):
  * a file is the body of a parameterless module (instantiating it yields the
    tuple of its bindings, which is what an import yields);
  * every module literal gets two extra parameters, evaluated where the literal
    stands: `std__` (the tuple of the file modules, handed down from the
    enclosing module's `mod.std__`) and `pkg` (`func () => mod.this{std__ =
    mod.std__}` for a literal in the file's own body, `mod.pkg` inside a module);
  * `import "std/x.ucg"` becomes `mod.std__.x{std__ = mod.std__}`.
Constraint annotations (`list :: [] = []`) are dropped: Eval.tla evaluates, the
checker is not its business."""
import os

from . import common as C

FILES = ["lists", "tuples", "strings", "functional", "schema"]


def chars(s):
    return list(s)


def _sym(n):
    return {"e": "sym", "nm": chars(n)}


def _dot(l, r):
    return {"e": "bin", "op": "dot", "l": l, "r": r}


MOD_STD = _dot(_sym("mod"), _sym("std__"))


def _val(v):
    t = v["t"]
    if t == "str":
        return {"t": "str", "s": chars(v["s"])}
    if t in ("null", "bool", "int"):
        return {k: v[k] for k in v if k in ("t", "b", "i")}
    raise C.ToolError("literal %r of std/ is outside Eval.tla's values" % (v,))


def _name_of(x, what):
    if x.get("e") != "sym":
        raise C.ToolError("%s is not a plain name: %r" % (what, x))
    return chars(x["nm"])


def conv_expr(x, depth):
    e = x["e"]
    if e == "lit":
        return {"e": "lit", "v": _val(x["val"])}
    if e == "sym":
        return _sym(x["nm"])
    if e == "tuple":
        return {"e": "tuple", "flds": conv_flds(x["flds"], depth)}
    if e == "list":
        return {"e": "list", "xs": [conv_expr(y, depth) for y in x["xs"]]}
    if e in ("not", "grp", "fail", "trace"):
        return {"e": e, "x": conv_expr(x["x"], depth)}
    if e == "bin":
        return {"e": "bin", "op": x["op"], "l": conv_expr(x["l"], depth), "r": conv_expr(x["r"], depth)}
    if e == "copy":
        return {"e": "copy", "sel": _name_of(x["sel"], "copy selector"), "flds": conv_flds(x["flds"], depth)}
    if e == "range":
        return {"e": "range", "lo": conv_expr(x["lo"], depth), "hi": conv_expr(x["hi"], depth),
                "step": [conv_expr(y, depth) for y in x["step"]]}
    if e == "fmt":
        if x["form"] != "list":
            raise C.ToolError("single-form format in std/: not converted")
        return {"e": "fmt", "form": "list", "tpl": chars(x["tpl"]), "args": [conv_expr(y, depth) for y in x["args"]]}
    if e == "import":
        p = x["path"]
        if not (p.startswith("std/") and p.endswith(".ucg")):
            raise C.ToolError("import of %r in std/: not converted" % p)
        name = p[4:-4]
        return _dot(MOD_STD, {"e": "copy", "sel": chars(name), "flds": [{"nm": chars("std__"), "ex": MOD_STD}]})
    if e == "call":
        return {"e": "call", "fn": _name_of(x["fn"], "called function"), "args": [conv_expr(y, depth) for y in x["args"]]}
    if e == "cast":
        return {"e": "cast", "ty": x["ty"], "x": conv_expr(x["x"], depth)}
    if e == "func":
        return {"e": "func", "ps": [chars(p["nm"]) for p in x["ps"]], "body": conv_expr(x["body"], depth)}
    if e == "select":
        return {"e": "select", "x": conv_expr(x["x"], depth), "dflt": [conv_expr(y, depth) for y in x["dflt"]],
                "flds": conv_flds(x["flds"], depth)}
    if e == "fop":
        return {"e": "fop", "kind": x["kind"], "fn": conv_expr(x["fn"], depth), "tgt": conv_expr(x["tgt"], depth),
                "acc": [conv_expr(y, depth) for y in x["acc"]]}
    if e == "module":
        if depth == 0:
            pkg = {"e": "func", "ps": [],
                   "body": _dot(_sym("mod"), {"e": "copy", "sel": chars("this"),
                                              "flds": [{"nm": chars("std__"), "ex": MOD_STD}]})}
        else:
            pkg = _dot(_sym("mod"), _sym("pkg"))
        ps = conv_flds(x["ps"], depth) + [{"nm": chars("std__"), "ex": MOD_STD}, {"nm": chars("pkg"), "ex": pkg}]
        return {"e": "module", "ps": ps, "out": [conv_expr(y, depth + 1) for y in x["out"]],
                "body": conv_stmts(x["body"], depth + 1)}
    raise C.ToolError("expression kind %r of std/ has no counterpart in Eval.tla" % e)


def conv_flds(fl, depth):
    return [{"nm": chars(f["nm"]), "ex": conv_expr(f["ex"], depth)} for f in fl]


def conv_stmts(ss, depth):
    out = []
    for s in ss:
        if s["s"] == "let":
            out.append({"s": "let", "nm": chars(s["nm"]), "x": conv_expr(s["x"], depth)})
        elif s["s"] == "expr":
            out.append({"s": "expr", "x": conv_expr(s["x"], depth)})
        else:
            raise C.ToolError("statement kind %r of std/ has no counterpart in Eval.tla" % s["s"])
    return out


def load(harness_path):
    """-> {file name: converted statements} for the std files C19 names."""
    h = C.Harness(harness_path, timeout=60)
    out = {}
    try:
        for name in FILES:
            src = open(os.path.join(C.REPO, "std", name + ".ucg"), encoding="utf-8").read()
            r = h.req({"op": "parse", "src": src})
            if not r.get("ok"):
                raise C.ToolError("std/%s.ucg does not parse: %r" % (name, r.get("err")))
            out[name] = conv_stmts(r["stmts"], 0)
    finally:
        h.close()
    return out
