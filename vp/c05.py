"""C05 — formatting a file never changes its meaning or loses its comments.

spec/Fmt.tla is model-checked (part (a): Canon is injective on the bounded AST
domain and its leaves read back; part (b): the comment placer emits every
comment once, in order, and formatting is a fixed point for comments between
statements) and every case TLC explores is replayed into the real code through
the harness ops parse / fmt:

* every AST of the domain (and every program of the C01 generator families, for
  which spec/FmtGiven.tla computes the canonical text) is rendered in K seeded
  random layouts; parse(text) and parse(fmt(text)) must both equal the SPEC's
  AST (positions and field-name quoting apart), fmt of the plain rendering must
  be the canonical text the spec predicts, the comments of fmt(text) must be the
  comments of the text in order, fmt(fmt(text)) = fmt(text) when every comment
  of fmt(text) sits on a line of its own between statements;
* every layout of the placer machine is realised as a program whose nodes sit
  on the lines of the layout; the comments of the output must be the layout's
  comments in order and the fixed point must hold under its precondition (the
  property); the interleaving of comments and nodes, the printed comment texts,
  the comment map and the predicted fixed point bind the machine to the code
  (where the property leaves the code free, a mismatch is a stale transcription:
  tool error, not a verdict - the same goes for the canonical text);
* every .ucg file shipped in the repository (parse(fmt(text)) = parse(text),
  comments, fixed point), and a sample through `ucg fmt` / `ucg fmt -w`."""
import glob
import json
import os
import random
import subprocess
import time

from . import common as C
from . import coreprog as P
from . import fmtlay as F

PID = "C05"
CANON_DEVS = ["RangeStepColons", "FloatNoFraction", "BareFieldNotAWord"]
PLACE_DEVS = ["BlankCommentPadded", "KeywordSwallowsComment"]

ASSUMPTIONS = [
    "Grouped (parenthesis) nodes are part of the compared tree; only positions and the quoted/unquoted spelling of field names are dropped",
    "comment texts are compared with leading/trailing blanks trimmed (str.strip); the scanner knows string literals, // comments, brackets and ; only",
    "the fixed-point clause is demanded only when every comment of fmt(text) is alone on its line and outside every TOP-LEVEL statement "
    "(comments between the statements of a module body are inside a statement: not demanded)",
    "text that the parser rejects is outside the property (shipped files that do not parse are counted and skipped)",
    "layout of the output and the place of a comment relative to the code are not demanded by the property: the predicted canonical text of "
    "comment-free programs and the predicted interleaving of comments and nodes only bind Fmt.tla to the printer; a mismatch on a case that "
    "satisfies the property ends the run with a tool error (stale transcription), never with a violation",
    "negative literals, nested integer selectors and other forms the grammar cannot spell are not generated; Gen trees the parser cannot "
    "produce get the Grouped nodes the grammar demands before they are used",
    "floats are the dyadic pool plus 1e20 and 2^-30; non-finite floats cannot be written as literals",
]


def known_devs():
    out = []
    for f in C.load_findings(PID):
        d = f.get("deviation")
        if d:
            out.append(d)
    return out


def tla_set(xs):
    return "{" + ", ".join('"%s"' % x for x in xs) + "}"


# ---------------------------------------------------------------------------
# TLC configurations
# ---------------------------------------------------------------------------
def write_cfg(gd, name, consts, init, nxt, invs):
    base = {"Deviations": "{}", "KnownDevs": "{}", "DomSize": "0", "Blocks": "24", "MaxL": "0", "MaxStmts": "0",
            "MaxCmts": "0", "Spices": "{}", "EmitEvery": "1", "EmitPhase": "0"}
    base.update(consts)
    with open(os.path.join(gd, name + ".cfg"), "w") as f:
        f.write("CONSTANTS\n" + "".join("  %s = %s\n" % kv for kv in base.items())
                + "INIT %s\nNEXT %s\nCHECK_DEADLOCK FALSE\nINVARIANTS %s\n" % (init, nxt, " ".join(invs)))
    return name


def write_modules(gd):
    for m, base in (("MC_Fmt", "Fmt"), ("MC_FmtGiven", "FmtGiven")):
        with open(os.path.join(gd, m + ".tla"), "w") as f:
            f.write("---- MODULE %s ----\nEXTENDS %s\n====\n" % (m, base))


# ---------------------------------------------------------------------------
# abstraction of concrete programs for FmtGiven.tla
# ---------------------------------------------------------------------------
ATOM_OF = {v: k for k, v in F.FIXED.items()}


def abs_chars(s):
    return [ATOM_OF.get(c, c) for c in s]


def abs_name(s):
    for pre in ("NULL", "true", "false"):
        if s.startswith(pre):
            return [pre] + list(s[len(pre):])
    return list(s)


def to_abstract(x):
    if isinstance(x, list):
        return [to_abstract(y) for y in x]
    if not isinstance(x, dict):
        return x
    out = {}
    for k, v in x.items():
        if k in ("nm", "fn", "sel") and isinstance(v, str):
            out[k] = abs_name(v)
        elif k in ("tpl", "path") and isinstance(v, str):
            out[k] = abs_chars(v)
        elif k == "s" and x.get("t") == "str":
            out[k] = abs_chars(v)
        else:
            out[k] = to_abstract(v)
    return out


def impl_to_abstract(x):
    """Harness AST (a shipped file) -> abstract Fmt.tla shape, good enough for the spec to say WHICH
    deviations touch the file (numbers outside the pools are replaced by stand-ins of the same class:
    only `devs` of the answer is used, never the canonical text)."""
    from . import render as R
    if isinstance(x, list):
        return [impl_to_abstract(y) for y in x]
    if "e" not in x:
        o = {"s": x["s"], "x": impl_to_abstract(x["x"])}
        if x["s"] == "let":
            o["nm"], o["con"] = abs_name(x["nm"]), impl_to_abstract(x.get("con") or [])
        elif x["s"] == "out":
            o["fmt"] = x["fmt"]
        elif x["s"] == "constraint":
            o["nm"] = abs_name(x["nm"])
        return o
    k = x["e"]
    A = impl_to_abstract

    def flds(fs):
        return [{"nm": abs_name(f["nm"]), "q": bool(f.get("q")), "con": A(f.get("con") or []), "ex": A(f["ex"])} for f in fs]
    if k == "lit":
        v = x["val"]
        t = v["t"]
        if t == "int":
            return {"e": "lit", "v": {"t": "int", "i": v["i"] if 0 <= v["i"] < 2 ** 30 else 7}}
        if t == "float":
            f = R.float_from_bits(v["bits"])
            if f == int(f) and 0 <= f < 2 ** 30:
                return {"e": "lit", "v": {"t": "float", "fn": int(f), "fk": 0}}
            if f == int(f):
                return {"e": "lit", "v": {"t": "float", "cls": "big"}}
            return {"e": "lit", "v": {"t": "float", "fn": 3, "fk": 1}}
        if t == "str":
            return {"e": "lit", "v": {"t": "str", "s": abs_chars(v["s"])}}
        return {"e": "lit", "v": v}
    if k == "sym":
        return {"e": "sym", "nm": abs_name(x["nm"])}
    if k == "tuple":
        return {"e": k, "flds": flds(x["flds"])}
    if k == "list":
        return {"e": k, "xs": A(x["xs"])}
    if k in ("not", "fail", "trace", "grp"):
        return {"e": k, "x": A(x["x"])}
    if k == "convert":
        return {"e": k, "fmt": x["fmt"], "x": A(x["x"])}
    if k == "cast":
        return {"e": k, "ty": x["ty"], "x": A(x["x"])}
    if k == "call":
        return {"e": k, "fn": abs_name(x["fn"]["nm"]), "args": A(x["args"])}
    if k == "copy":
        return {"e": k, "sel": abs_name(x["sel"]["nm"]), "flds": flds(x["flds"])}
    if k == "range":
        return {"e": k, "lo": A(x["lo"]), "step": A(x["step"]), "hi": A(x["hi"])}
    if k == "func":
        return {"e": k, "ps": [{"nm": abs_name(p["nm"]), "con": A(p.get("con") or [])} for p in x["ps"]], "body": A(x["body"])}
    if k == "select":
        return {"e": k, "x": A(x["x"]), "dflt": A(x["dflt"]), "flds": flds(x["flds"])}
    if k == "fop":
        return {"e": k, "kind": x["kind"], "fn": A(x["fn"]), "acc": A(x["acc"]), "tgt": A(x["tgt"])}
    if k == "module":
        return {"e": k, "ps": flds(x["ps"]), "out": A(x["out"]), "outcon": A(x.get("outcon") or []), "body": A(x["body"])}
    if k == "fmt":
        return {"e": k, "form": x["form"], "tpl": abs_chars(x["tpl"]), "args": A(x["args"])}
    if k == "import":
        return {"e": k, "path": abs_chars(x["path"])}
    if k == "include":
        return {"e": k, "ty": x["ty"], "path": abs_chars(x["path"])}
    if k == "constraint":
        return {"e": k, "arms": [{"a": "range", "lo": A(a["lo"]), "hi": A(a["hi"])} if a["a"] == "range"
                                 else {"a": "shape", "x": A(a["x"])} for a in x["arms"]]}
    if k == "bin":
        return {"e": k, "op": x["op"], "l": A(x["l"]), "r": A(x["r"])}
    raise ValueError("harness ast kind %r" % k)


# ---------------------------------------------------------------------------
# the text pipeline (runs in worker processes)
# ---------------------------------------------------------------------------
def _texts_of(prog, sd, k_layouts, glue_p):
    """Seeded layouts of one concrete program -> [(variant, text, expected norm, comment records)]."""
    outs = []
    for j in range(k_layouts):
        rng = random.Random(sd * 7919 + j)
        if j == 0:
            style, mode, cm = F.Style(rng, plain=True), "line", 0.0
        elif j == 1:
            style, mode, cm = F.Style(rng, parens=0.12, quote=0.4, trail=0.5), rng.choice(["compact", "airy"]), 0.0
        else:
            style = F.Style(rng, parens=rng.choice([0.0, 0.1, 0.25]), quote=rng.choice([0.0, 0.5]), trail=rng.choice([0.0, 0.5]))
            mode, cm = rng.choice(["line", "compact", "airy", "airy"]), rng.choice([0.08, 0.2, 0.4])
        em = F.Emitter(style)
        toks, ast = [], []
        try:
            for s in prog:
                t, a = em.stmt(s)
                toks += t
                ast.append(a)
        except F.Unrenderable:
            continue
        text, cms = F.layout(toks, rng, mode, comments=cm, blank=0.12, glued=glue_p if cm else 0.0)
        outs.append(("plain" if j == 0 else "layout%d" % j, text, F.norm_spec(ast), cms, len(toks)))
    return outs


def _blank(c):
    return c["text"].strip() == ""


def _unpad(text):
    """the text with the blanks behind a blank comment removed (the only difference BlankCommentPadded makes)"""
    return "\n".join(l.rstrip(" ") if l.strip() == "//" else l for l in text.split("\n"))


def run_jobs(h, jobs):
    """jobs: dicts with text and optionally exp (normal form), cms, canon_code, canon_design, devs.
    -> per job a dict(issues=[(what, key, detail)], f1, ntoks, ncomments, skipped)."""
    r1 = h.batch([q for j in jobs for q in ({"op": "parse", "src": j["text"]}, {"op": "fmt", "src": j["text"]})])
    second = []
    for i, j in enumerate(jobs):
        f = r1[2 * i + 1]
        j["_p0"], j["_r1"] = r1[2 * i], f
        if f.get("ok"):
            second += [{"op": "parse", "src": f["text"]}, {"op": "fmt", "src": f["text"]}]
    r2 = iter(h.batch(second))
    out = []
    for j in jobs:
        p0, f = j["_p0"], j["_r1"]
        res = {"issues": [], "f1": None, "skipped": False, "stale": None}
        out.append(res)
        p1, f2 = (next(r2), next(r2)) if f.get("ok") else (None, None)     # (answers are consumed in step with the requests)

        def issue(what, key=None, **detail):
            detail["text"] = j["text"]
            res["issues"].append((what, key, detail))
        devs = j.get("devs") or []
        devkeys = ["dev:" + d for d in devs] or [None]
        if "crash" in p0 or "crash" in f:
            issue("crash", None, obs=str(p0 if "crash" in p0 else f)[:300])
            continue
        exp = j.get("exp")
        if exp is None:                       # shipped file: the parser is its own reference
            if not p0.get("ok"):
                res["skipped"] = True
                continue
            exp = F.norm_impl(p0["stmts"])
        elif not p0.get("ok") or F.norm_impl(p0["stmts"]) != exp:
            issue("parse-text", None, want=repr(exp)[:600],
                  got=(repr(F.norm_impl(p0["stmts"]))[:600] if p0.get("ok") else p0.get("err")))
            continue
        if not f.get("ok"):
            issue("fmt-fails", None, err=f.get("err"))
            continue
        f1 = f["text"]
        res["f1"] = f1
        if "crash" in p1 or "crash" in f2:
            issue("crash", None, obs=str(p1 if "crash" in p1 else f2)[:300], f1=f1)
            continue
        # the canonical text (comment-free plain rendering): binds Canon of Fmt.tla to the printer.  The property
        # does not prescribe a layout, so a mismatch alone is a stale transcription (tool error), not a verdict
        if j.get("canon_code") is not None and f1 != j["canon_code"] and f1 != j["canon_design"]:
            res["stale"] = {"what": "canon-text", "text": j["text"], "f1": f1, "predicted": j["canon_code"]}
        # same program
        same = p1.get("ok") and F.norm_impl(p1["stmts"]) == exp
        if not same:
            for k in devkeys:                 # the deviations Fmt.tla says touch this program (none: no key)
                issue("reparse", k, f1=f1, want=repr(exp)[:500],
                      got=(repr(F.norm_impl(p1["stmts"]))[:500] if p1.get("ok") else p1.get("err")))
        # same comments
        sc1 = F.scan(f1)
        cms = j.get("cms")
        if cms is None:
            sc0 = F.scan(j["text"])
            want = F.comment_texts(sc0)
            glued = []
        else:
            want = [c["text"].strip() for c in cms]
            glued = [c for c in cms if c["glued"]]
            if [c["text"] for c in F.scan(j["text"])["comments"]] != [c["text"] for c in cms]:
                raise C.ToolError("scanner and renderer disagree on the comments of %r" % j["text"])
        got = F.comment_texts(sc1)
        res["ncomments"] = len(want)
        if got != want:
            if glued and got == [c["text"].strip() for c in cms if not c["glued"]]:
                issue("comments", "dev:KeywordSwallowsComment", f1=f1, want=want, got=got)
            else:
                issue("comments", None, f1=f1, want=want, got=got)
        # fixed point
        if F.comments_between_statements(sc1) and sc1["ok"]:
            res["fixed_checked"] = True
            if not f2.get("ok"):
                if same:
                    issue("fixed-point", None, f1=f1, err=f2.get("err"))
            elif f2["text"] != f1:
                if any(_blank(c) for c in sc1["comments"]) and _unpad(f2["text"]) == _unpad(f1):
                    issue("fixed-point", "dev:BlankCommentPadded", f1=f1, f2=f2["text"])
                else:
                    for k in (devkeys if not same else [None]):
                        issue("fixed-point", k, f1=f1, f2=f2["text"])
    for j in jobs:
        j.pop("_p0", None)
        j.pop("_r1", None)
    return out


def work_programs(h, items):
    """items: (tag, concrete prog, canon_code, canon_design, devs, seed, K, glue_p)."""
    jobs = []
    for tag, prog, cc, cd, devs, sd, k, gp in items:
        for variant, text, exp, cms, ntoks in _texts_of(prog, sd, k, gp):
            if tag.startswith("DEMO:"):          # binding demonstration: an altered predicted tree
                exp = (("expr", ("sym", "altered-prediction")),)
            jobs.append({"tag": tag, "variant": variant, "text": text, "exp": exp, "cms": cms, "devs": devs,
                         "canon_code": cc if variant == "plain" else None,
                         "canon_design": cd if variant == "plain" else None, "ntoks": ntoks})
    res = run_jobs(h, jobs)
    return [{"tag": j["tag"], "variant": j["variant"], "text": j["text"], "ntoks": j["ntoks"], "ncomments": len(j["cms"]),
             "issues": r["issues"], "f1": r["f1"], "fixed_checked": r.get("fixed_checked", False), "stale": r["stale"]}
            for j, r in zip(jobs, res)]


def work_files(h, items):
    jobs = [{"tag": "file:" + p, "text": t, "devs": devs} for p, t, devs in items]
    res = run_jobs(h, jobs)
    return [{"tag": j["tag"], "variant": "file", "text": j["text"], "ntoks": 99, "ncomments": r.get("ncomments", 0),
             "issues": r["issues"], "f1": r["f1"], "skipped": r["skipped"], "fixed_checked": r.get("fixed_checked", False)}
            for j, r in zip(jobs, res)]


# ---------------------------------------------------------------------------
# the placer: a layout of Fmt.tla as a program
# ---------------------------------------------------------------------------
def frag_text(f, cid):
    return "".join(" " if c == "sp" else "c%d" % cid for c in f)


def realize(lay, rng):
    lines = lay["lines"]
    n = len(lines)
    ords, o = {}, 0
    for i, l in enumerate(lines):
        if l["code"] != "-":
            o += 1
            ords[i] = o
    # statements: head line -> its inner node lines
    inner, cur = {}, None
    for i, l in enumerate(lines):
        if l["code"] == "s":
            cur = i
            inner[i] = []
        elif l["code"] == "n":
            inner[cur].append(i)
    glue = lay["glue"] - 1
    code = {}
    for s, ns in inner.items():
        o = ords[s]
        members = [s] + ns
        if lay["look"] and ns:
            style = "range"
        elif glue in members:
            style = "chain"
        elif not ns:
            style = "single"
        else:
            style = rng.choice(["list", "tuple", "call", "chain"])
        if style == "single":
            code[s] = "let s%d = h%d;" % (o, o)
            continue
        head = {"list": "let s%d = [", "tuple": "let s%d = {", "call": "let s%d = fn(", "chain": "let s%d = h%d +",
                "range": "let s%d = (h%d +"}[style]
        code[s] = head % ((o, o) if style in ("chain", "range") else (o,))
        for q, i in enumerate(ns):
            last = q == len(ns) - 1
            k = ords[i]
            ind = " " * rng.choice([1, 2, 4])
            if style == "list":
                code[i] = ind + ("n%d];" if last else "n%d,") % k
            elif style == "tuple":
                code[i] = ind + ("f%d = n%d};" if last else "f%d = n%d,") % (k, k)
            elif style == "call":
                code[i] = ind + ("n%d);" if last else "n%d,") % k
            elif style == "chain":
                code[i] = ind + ("n%d;" if last else "n%d +") % k
            else:
                code[i] = ind + ("n%d):e%d;" if last else "n%d +") % ((k, k) if last else (k,))
        if glue in members:
            # the line ends in a keyword operator and the comment is glued to it
            assert code[glue].endswith("+"), (lay, code)
            code[glue] = code[glue][:-1] + "is"
    out = []
    cid = 0
    for i, l in enumerate(lines):
        c = code.get(i, "")
        if l["cm"] != "no":
            cid += 1
            body = "//" + frag_text(l["f"], cid)
            if l["code"] == "-":
                c = ("  " if l["cm"] == "ic" else "") + body
            elif i == glue:
                c = c + body
            else:
                c = c + rng.choice([" ", "  ", ""]) + body
        out.append(c)
    return "\n".join(out) + ("\n" if out else "")


def observed_seq(text):
    """Interleaving of comments and node markers of a text, by the independent scanner."""
    import re
    sc = F.scan(text)
    seq = []
    lines = text.split("\n")
    by_line = {}
    for c in sc["comments"]:
        by_line.setdefault(c["line"], []).append(c)
    for ln, raw in enumerate(lines, 1):
        cm = by_line.get(ln, [])
        codepart = raw
        if cm:
            codepart = raw[:raw.rfind("//" + cm[0]["text"])] if ("//" + cm[0]["text"]) in raw else raw
        for w in re.findall(r"\b[sn]\d+\b", codepart):
            seq.append(("w", w))
        for c in cm:
            seq.append(("c", c["text"]))
    return seq, sc


def predicted_seq(view):
    out = []
    for it in view["out"]:
        if it["k"] == "c":
            out.append(("c", frag_text(it["f"], it["id"])))
        elif it["k"] in ("s", "n"):
            out.append(("w", "%s%d" % (it["k"], it["o"])))
    return out


def work_place(h, items):
    """items: (case, seed)."""
    texts = []
    for case, sd in items:
        texts.append(realize(case["lay"], random.Random(sd)))
    r1 = h.batch([{"op": "fmt", "src": t} for t in texts])
    r2 = h.batch([{"op": "fmt", "src": r["text"]} for r in r1 if r.get("ok")])
    it2 = iter(r2)
    out = []
    for (case, sd), text, f in zip(items, texts, r1):
        res = {"text": text, "issues": [], "lay": case["lay"], "f1": None, "stale": None}
        out.append(res)

        def issue(what, key=None, **d):
            d["text"] = text
            res["issues"].append((what, key, d))
        if not f.get("ok"):
            issue("place-fmt-fails", None, err=str(f)[:300])
            continue
        f1 = f["text"]
        res["f1"] = f1
        f2 = next(it2)
        devkeys = ["dev:" + d for d in case["devs"]]
        code, design = case["code"], case["design"]
        obs, sc1 = observed_seq(f1)
        pcode, pdesign = predicted_seq(code), predicted_seq(design)
        # --- the property: every comment of the text (the layout's comments, by the spec), same text, same order
        want = [frag_text(c["f"], c["id"]).strip() for c in case["src"]]
        got = F.comment_texts(sc1)
        if got != want:
            as_predicted = got == [t.strip() for k, t in pcode if k == "c"]
            for k in (devkeys if as_predicted and devkeys else [None]):
                issue("place-comments", k, f1=f1, want=want, got=got)
        # --- the property: fixed point when every comment sits on its own line between statements
        pre = F.comments_between_statements(sc1) and sc1["ok"]
        fixed_obs = "na" if not pre else ("yes" if f2.get("ok") and f2["text"] == f1 else "no")
        res["fixed"] = fixed_obs
        if fixed_obs == "no":
            for k in (devkeys if code["fixed"] == "no" and devkeys else [None]):
                issue("place-fixed-point", k, f1=f1, f2=f2.get("text"))
        # --- binding of the model to the code (where the property leaves the code free a mismatch is a stale
        #     transcription, reported as a tool error when nothing else is wrong)
        maplines = [g["line"] for g in f.get("comments", [])]
        if obs != pcode and obs != pdesign:
            res["stale"] = {"what": "place-sequence", "text": text, "f1": f1, "predicted": pcode, "got": obs}
        elif maplines != case["map"] and maplines != case["dmap"]:
            res["stale"] = {"what": "comment-map", "text": text, "predicted": case["map"], "got": maplines}
        elif fixed_obs not in (code["fixed"], design["fixed"]):
            res["stale"] = {"what": "fixed-point-prediction", "text": text, "f1": f1, "predicted": code["fixed"], "got": fixed_obs}
    return out


# ---------------------------------------------------------------------------
# the ucg binary
# ---------------------------------------------------------------------------
def binary_sample(ucg, hp, texts, rep, stats):
    d = C.scratch_dir("c05bin")
    home = os.path.join(d, "home")
    os.makedirs(home)
    env = dict(os.environ, HOME=home)
    env.pop("RUST_BACKTRACE", None)
    h = C.Harness(hp)
    want = h.batch([{"op": "fmt", "src": t} for t in texts])
    h.close()
    import concurrent.futures as cf

    def one(args):
        i, text, w = args
        p = os.path.join(d, "f%d.ucg" % i)
        with open(p, "w", encoding="utf-8", newline="") as f:
            f.write(text)
        a = subprocess.run([ucg, "fmt", p], env=env, cwd=d, capture_output=True, timeout=60)
        still = open(p, encoding="utf-8", newline="").read()
        b = subprocess.run([ucg, "fmt", "-w", p], env=env, cwd=d, capture_output=True, timeout=60)
        after = open(p, encoding="utf-8", newline="").read()
        return i, a, still, b, after
    with cf.ThreadPoolExecutor(max_workers=6) as ex:
        results = list(ex.map(one, [(i, t, w) for i, (t, w) in enumerate(zip(texts, want))]))
    for i, a, still, b, after in results:
        text, w = texts[i], want[i]
        stats["binary"] += 1
        if w.get("ok"):
            good = (a.returncode == 0 and a.stdout.decode("utf-8", "replace") == w["text"] and still == text
                    and b.returncode == 0 and after == w["text"])
        else:
            good = a.returncode != 0 and still == text and b.returncode != 0
        if not good:
            rep.disagree({"what": "ucg fmt / ucg fmt -w differ from AstPrinter::render on the same text", "text": text,
                          "stdout": a.stdout.decode("utf-8", "replace")[:800], "file_after_w": after[:800],
                          "library": (w.get("text") or str(w.get("err")))[:800],
                          "status": [a.returncode, b.returncode]}, key=None)
    import shutil
    shutil.rmtree(d, ignore_errors=True)


# ---------------------------------------------------------------------------
def shipped_files():
    out = []
    for p in sorted(glob.glob(os.path.join(C.REPO, "**", "*.ucg"), recursive=True)):
        rel = os.path.relpath(p, C.REPO)
        if rel.startswith(("target", ".git")):
            continue
        try:
            out.append((rel, open(p, encoding="utf-8", newline="").read()))
        except UnicodeDecodeError:
            continue
    return out


GEN_FAMILIES = {
    "data": ({"Fam": "<- FamData", "LitPool": "<- Lits2", "Names": "<- Names1", "BinOps": "<- Ops2",
              "TyNames": "<- TySome", "Prelude": "<- PreData", "MaxN": "3", "MaxStmts": "1"}, None),
    "misc": ({"Fam": "<- FamMisc", "LitPool": "<- LitsFmt", "Names": "<- Names1", "BinOps": "<- Ops2",
              "TyNames": "<- TySome", "MaxN": "3", "MaxStk": "3", "MaxStmts": "1"}, None),
    "nums": ({"Fam": "<- FamOps", "LitPool": "<- LitsNum", "Names": "<- Names1", "BinOps": "<- OpsNum",
              "MaxN": "3", "MaxStmts": "1"}, None),
    "sim": ({"Fam": "<- FamSim", "LitPool": "<- LitsMix", "Names": "<- NamesTop", "BinOps": "<- OpsAll",
             "Prelude": "<- PreSim", "MaxN": "9", "MaxD": "5", "MaxStk": "4", "MaxCtx": "3", "MaxStmts": "4",
             "MaxModStmts": "2", "Ill0": "1"}, (400, 70)),
}


def gen_programs(tier, gd, cmds, counts):
    """Programs of the C01 generator (Gen.tla) in the AST shape of Fmt.tla."""
    mod = P.write_mc_module(gd)
    progs, seen = [], set()
    fams = ["misc", "sim"] if tier == "quick" else ["data", "misc", "nums", "sim"]
    for name in fams:
        over, sim = GEN_FAMILIES[name]
        if sim and tier != "quick":
            sim = (4000, 70)
        P.write_cfg(gd, "gen_" + name, over, invs=["Emit"])
        cases = []
        r = C.run_tlc(mod, "gen_" + name, workers=6, gendir=gd, timeout=2400, heap="8g",
                      simulate=sim[0] if sim else None, depth=sim[1] if sim else None, on_replay=cases.append)
        cmds.append(r.cmd)
        C.require_tlc_ok(r, "Gen family " + name)
        counts["states"] += r.distinct or r.generated
        counts["transitions"] += r.generated
        kept = 0
        for c in cases:
            try:
                p = F.make_parseable(F.from_gen(c["prog"]))
                for s in p:                       # renderable at all (no negative literal ...)?
                    F.Emitter(F.Style(random.Random(0), plain=True)).stmt(s)
            except (F.Unrenderable, ValueError):
                continue
            key = json.dumps(p, sort_keys=True)
            if key in seen:
                continue
            seen.add(key)
            progs.append((name, p))
            kept += 1
        C.log("[C05] Gen family %s: %d programs (%d distinct renderable), %.0fs" % (name, len(cases), kept, r.wall))
    return progs


def main(tier, replay=None):
    t0 = time.time()
    hp = C.ensure_harness()
    if replay:
        return do_replay(hp, os.path.abspath(replay))      # (before Reporter(), which clears replays/C05)
    rep = C.Reporter(PID)
    sd = C.seed()
    kd = known_devs()
    kcanon = [d for d in kd if d in CANON_DEVS]
    kplace = [d for d in kd if d in PLACE_DEVS]
    gd = C.gen_dir("c05")
    write_modules(gd)
    quick = tier == "quick"
    counts = {"states": 0, "transitions": 0}
    cmds = []
    stats = {"canon_programs": 0, "gen_programs": 0, "layouts": 0, "place_states": 0, "place_replayed": 0, "files": 0,
             "files_skipped": 0, "binary": 0, "fixed_point_checked": 0, "with_comments": 0, "issues": 0}
    samples = []
    nontrivial = set()
    model_failures = []

    def tlc(module, cfg, what, **kw):
        r = C.run_tlc(module, cfg, workers=6, gendir=gd, timeout=3000, heap="8g", keep_lines=True, **kw)
        cmds.append(r.cmd)
        if r.violation:
            ce = [l for l in r.lines if l.startswith(('<<"COLLISION"', '<<"UNREADABLE"'))][:1]
            model_failures.append((what, r.violation, ce[0][:1500] if ce else r.errtext[:1500]))
            return r
        C.require_tlc_ok(r, what)
        counts["states"] += r.distinct or r.generated
        counts["transitions"] += r.generated
        C.log("[C05] %s: %d states, %d cases, %.0fs" % (what, r.distinct or r.generated, len(r.replays), r.wall))
        return r

    # ---- part (a): the design is injective / readable; the domain is emitted
    canon_cfg = write_cfg(gd, "canon", {"DomSize": "2" if quick else "3", "KnownDevs": tla_set(kcanon)},
                          "CanonInit", "CanonNext", ["Injective", "Relexes", "CanonEmit"])
    rc = tlc("MC_Fmt", canon_cfg, "Fmt canon domain (Injective, Relexes; Deviations = {})")
    # ---- part (b): the placer
    place_consts = {"MaxL": "5" if quick else "6", "MaxStmts": "3" if quick else "4", "MaxCmts": "3" if quick else "4",
                    "Spices": '{"frag", "glue", "look"}', "KnownDevs": tla_set(kplace),
                    "EmitEvery": "41" if quick else "61", "EmitPhase": str(sd % 41 if quick else sd % 61)}
    place_cfg = write_cfg(gd, "place", place_consts, "PlaceInit", "PlaceNext",
                          ["Deterministic", "EachOnce", "InOrder", "BeforeLaterCode", "FixedPoint", "PlaceEmit"])
    rp = tlc("MC_Fmt", place_cfg, "Fmt placer (EachOnce, InOrder, BeforeLaterCode, FixedPoint; Deviations = {})")
    if model_failures:
        for what, inv, txt in model_failures:
            C.log("[C05] MODEL: %s violated in %s\n%s" % (inv, what, txt))
        raise C.ToolError("spec/Fmt.tla: the DESIGN (Deviations = {}) violates %s; the specification contradicts itself, "
                          "no verdict about the code" % ", ".join(m[1] for m in model_failures))

    # ---- vacuity of the domain: every form and statement kind occurs
    kinds = set()

    def walk(x):
        if isinstance(x, dict):
            if "e" in x:
                kinds.add(x["e"])
            if "s" in x and isinstance(x["s"], str) and "x" in x:
                kinds.add("stmt:" + x["s"])
            for v in x.values():
                walk(v)
        elif isinstance(x, list):
            for v in x:
                walk(v)
    for c in rc.replays:
        walk(c["prog"])
    need = {"lit", "sym", "tuple", "list", "bin", "not", "fail", "trace", "grp", "cast", "call", "copy", "range", "fmt",
            "func", "select", "fop", "module", "convert", "import", "include", "constraint", "stmt:let", "stmt:expr",
            "stmt:assert", "stmt:out", "stmt:constraint"}
    if need - kinds:
        raise C.ToolError("the AST domain lacks %r" % sorted(need - kinds))

    # ---- programs of the C01 generator and the shipped files: what Fmt.tla says about them
    gprogs = gen_programs(tier, gd, cmds, counts)
    files = shipped_files()
    hh = C.Harness(hp)
    fparsed = hh.batch([{"op": "parse", "src": t} for _, t in files])
    hh.close()
    given = os.path.join(gd, "given.ndjson")
    file_ix = {}
    with open(given, "w") as f:
        n = 0
        for _, p in gprogs:
            n += 1
            f.write(json.dumps({"prog": to_abstract(p)}) + "\n")
        for (rel, _), pr in zip(files, fparsed):
            if pr.get("ok"):
                n += 1
                file_ix[rel] = n
                f.write(json.dumps({"prog": impl_to_abstract(pr["stmts"])}) + "\n")
    given_cfg = write_cfg(gd, "given", {"KnownDevs": tla_set(kcanon)}, "GivenInit", "GivenNext", ["GivenEmit"])
    rg = tlc("MC_FmtGiven", given_cfg, "Canon of the C01 generator programs and the shipped files", env_extra={"C05_GIVEN": given})
    gcases = {c["n"]: c for c in rg.replays}
    if len(gcases) != n:
        raise C.ToolError("FmtGiven emitted %d of %d programs" % (len(gcases), n))

    # ---- replay: programs in random layouts
    K = 4 if quick else 8
    items = []
    canon_cases = sorted(rc.replays, key=lambda c: c["n"])
    if quick:
        # every literal / range / name / constraint program, and a seeded third of the compound ones
        canon_cases = [c for c in canon_cases if c["n"] % 3 == sd % 3 or len(json.dumps(c["prog"])) < 260]
    for c in canon_cases:
        rf = F.Refine(random.Random(sd * 1000003 + c["n"]))
        prog = F.concretize(c["prog"], rf)
        items.append(("canon:%d" % c["n"], prog, rf.s(c["code"]), rf.s(c["design"]), c["devs"],
                      sd * 1000003 + c["n"], K, 0.25))
    stats["canon_programs"] = len(canon_cases)
    rfid = F.Refine(random.Random(0))
    for i, (fam, p) in enumerate(gprogs, 1):
        c = gcases[i]
        items.append(("gen:%s:%d" % (fam, i), p, rfid.s(c["code"]), rfid.s(c["design"]), c["devs"],
                      sd * 1000003 + 500000 + i, K, 0.25))
    stats["gen_programs"] = len(gprogs)
    if quick:
        # the exhaustive Gen families are large next to their variety: a seeded half of them (all of `sim`)
        items = [it for q, it in enumerate(items) if not it[0].startswith("gen:misc") or (q + sd) % 2 == 0]
    seen_place = {"yes": 0, "na": 0, "look": 0, "glue": 0, "frag": 0}
    for c in rp.replays:
        seen_place[c["design"]["fixed"]] = seen_place.get(c["design"]["fixed"], 0) + 1
        seen_place["look"] += c["lay"]["look"]
        seen_place["glue"] += c["lay"]["glue"] > 0
        seen_place["frag"] += any(l["cm"] != "no" and l["f"] != ["sp", "x"] for l in c["lay"]["lines"])
    if not all(seen_place[k] for k in ("yes", "na", "look", "glue", "frag")):
        raise C.ToolError("vacuous placer sample: %r" % seen_place)
    if os.environ.get("VERIF_C05_DEMO"):
        # binding demonstration: one altered prediction of each kind must be reported as a violation
        it = list(items[0])
        it[0] = "DEMO:" + it[0]                      # the predicted tree of one program
        items[0] = tuple(it)
        demo = json.loads(json.dumps(next(c for c in rp.replays if len(c["src"]) >= 2)))
        demo["src"] = demo["src"][:-1]               # the predicted comment sequence of one layout
        rp.replays.append(demo)
    results = C.proc_map(hp, work_programs, items, chunk=60, workers=10)
    # ---- replay: the placer's layouts
    pitems = [(c, sd * 1000003 + i) for i, c in enumerate(rp.replays)]
    stats["place_states"] = (rp.distinct or 0)
    presults = C.proc_map(hp, work_place, pitems, chunk=200, workers=10)
    stats["place_replayed"] = len(presults)
    # ---- the shipped files
    fitems = [(rel, t, gcases[file_ix[rel]]["devs"] if rel in file_ix else []) for rel, t in files]
    fresults = C.proc_map(hp, work_files, fitems, chunk=20, workers=8)

    bin_texts = []
    for r in results + fresults:
        if r.get("skipped"):
            stats["files_skipped"] += 1
            continue
        if r["variant"] == "file":
            stats["files"] += 1
        else:
            stats["layouts"] += 1
        if r["fixed_checked"]:
            stats["fixed_point_checked"] += 1
        if r["ncomments"]:
            stats["with_comments"] += 1
        if r["f1"] and (r["ncomments"] or r["ntoks"] >= 8):
            nontrivial.add(r["text"])
        for what, key, detail in r["issues"]:
            stats["issues"] += 1
            rep.disagree({"what": what, "case": r["tag"], "variant": r["variant"], "detail": detail}, key=key)
        if not r["issues"] and r["ncomments"] >= 2 and len(samples) < 4 and len(r["text"]) < 500 and stats["layouts"] % 37 == 5:
            samples.append({"case": r["tag"], "text": r["text"], "fmt": r["f1"]})
        if len(bin_texts) < (10 if quick else 40) and (stats["layouts"] + stats["files"]) % (23 if quick else 11) == 7:
            bin_texts.append(r["text"])
    stale = [r["stale"] for r in results + presults if r.get("stale") and not r["issues"]]
    for r in presults:
        if r["f1"]:
            nontrivial.add(r["text"])
        for what, key, detail in r["issues"]:
            stats["issues"] += 1
            rep.disagree({"what": what, "layout": r["lay"], "detail": detail}, key=key)
        if not r["issues"] and len(samples) < 6 and r.get("fixed") == "yes" and len(r["lay"]["lines"]) >= 4 and r["text"].count("//") >= 2:
            samples.append({"layout": r["lay"], "text": r["text"], "fmt": r["f1"], "fixed_point": r["fixed"]})
    # ---- "very large/small floats": a literal beyond the range of a double (the generators' floats are decimal pairs)
    hq = C.Harness(hp)
    try:
        for text in ("let x = 1" + "0" * 309 + ".0;\n", "let x = [0 - 1" + "0" * 310 + ".5];\n"):
            a = hq.req({"op": "fmt", "src": text})
            b = hq.req({"op": "parse", "src": a.get("text", "")}) if a.get("ok") else {}
            c = hq.req({"op": "parse", "src": text})
            stats["layouts"] += 1
            same = a.get("ok") and b.get("ok") and c.get("ok") and json.dumps(b["stmts"], sort_keys=True) == json.dumps(c["stmts"], sort_keys=True)
            if not same:
                rep.disagree({"what": "a float literal beyond the range of a double is not formatted to text of the same meaning",
                              "text": text[:40] + "...", "formatted": a.get("text", str(a))[:200]},
                             key="float-literal-beyond-f64-printed-as-inf")
    finally:
        hq.close()
    # ---- the binary
    bin_texts += ["let a = 1;\n// c\n", "let broken = ;\n"]
    binary_sample(C.ensure_ucg(), hp, bin_texts, rep, stats)

    if os.environ.get("C05_DUMP"):
        with open(os.environ["C05_DUMP"], "w") as f:
            for key, case in rep.violations:
                f.write(json.dumps({"key": key, "case": case}, ensure_ascii=False) + "\n")
            for key, cases in rep.matched.items():
                for case in cases:
                    f.write(json.dumps({"key": key, "known": True, "case": case}, ensure_ascii=False) + "\n")
    code = rep.finish()
    stats["stale_transcription"] = len(stale)
    C.write_evidence(PID, tier, "model_checking", {
        "states": counts["states"], "transitions": counts["transitions"],
        "traces_validated_against_impl": stats["layouts"] + stats["place_replayed"] + stats["files"] + stats["binary"],
        "evaluations": 4 * (stats["layouts"] + stats["files"]) + 2 * stats["place_replayed"] + 2 * stats["binary"],
        "distinct_nontrivial": len(nontrivial),
        "rule": "a case is one text (an AST of the Fmt.tla domain or a C01-generator program in one seeded layout, a realised "
                "placer layout, a shipped .ucg file) taken through parse, fmt, parse(fmt), fmt(fmt) of the real code; non-trivial = "
                "distinct text that formats and has at least one comment or at least 8 tokens",
        "samples": samples or [{"note": "no sample matched the sampling rule"}],
        "stats": stats,
        "known_deviations": kd,
        "exhaustive": False,
        "exhaustive_note": "the canon domain (DomSize %s) and the placer layouts (MaxL %s) are complete enumerations in the model; "
                           "replay covers %s; the Gen `sim` family and the layouts are seeded samples"
                           % ("2" if quick else "3", place_consts["MaxL"],
                              "a seeded third of the compound programs and 1/%s of the placer layouts" % place_consts["EmitEvery"]
                              if quick else "every program of the domain and 1/%s of the placer layouts" % place_consts["EmitEvery"]),
        "checker_cmd": " ; ".join(cmds)[:4000],
        "trusted_base": ["TLC 1.8.0", "vp/fmtlay.py (renderer, scanner, normal forms)", "harness AST projection (harness/src/proj.rs)",
                         "Rust's shortest round-trip float printing for the float pool"],
    }, time.time() - t0, violations=len(rep.violations), assumptions=ASSUMPTIONS)
    import shutil
    shutil.rmtree(gd, ignore_errors=True)
    if stale and code == 0:
        raise C.ToolError("spec/Fmt.tla no longer transcribes the code: on %d case(s) the property holds but the printer's text / "
                          "comment placement is not the predicted one (the property leaves it free, so this is no verdict): %s"
                          % (len(stale), json.dumps(stale[0], ensure_ascii=False)[:1200]))
    return code


def do_replay(hp, path):
    case = json.load(open(path))["case"]
    d = case.get("detail") or {}
    text = d.get("text")
    h = C.Harness(hp)
    f1 = h.req({"op": "fmt", "src": text})
    p0 = h.req({"op": "parse", "src": text})
    out = {"text": text, "fmt": f1.get("text") or f1.get("err")}
    if f1.get("ok"):
        p1 = h.req({"op": "parse", "src": f1["text"]})
        f2 = h.req({"op": "fmt", "src": f1["text"]})
        out["same_program"] = bool(p0.get("ok") and p1.get("ok") and F.norm_impl(p0["stmts"]) == F.norm_impl(p1["stmts"]))
        out["comments_in"] = F.comment_texts(F.scan(text))
        out["comments_out"] = F.comment_texts(F.scan(f1["text"]))
        out["fmt_fmt"] = f2.get("text") or f2.get("err")
        out["fixed_point"] = f2.get("text") == f1["text"]
    h.close()
    print(json.dumps(out, indent=1, ensure_ascii=False))
    bad = (not f1.get("ok")) or not out.get("same_program") or out["comments_in"] != out["comments_out"] \
        or (case.get("what") in ("fixed-point", "place-fixed-point") and not out["fixed_point"])
    print("replay %s: %s" % (path, "DISAGREES with the property" if bad else "agrees"))
    if bad:
        print("VIOLATION property=%s replay=%s" % (PID, path))
    return 1 if bad else 0
