"""C15 — included data files decode to the data they contain.

DataModel.tla enumerates abstract documents (the image of the bounded value trees
under the reference ToDoc) and predicts, per format, the value `include` must
yield (FromDoc: integers stay integers, every other number is a float) and, for
every include type x content kind, the outcome the property demands (Include
table: unknown type, missing / empty / malformed / binary / text content).

The driver serialises each document INDEPENDENTLY of ucg (json.dumps; small TOML
and YAML emitters of its own; raw bytes for str/b64), cross-checks the bytes with
the independent decoders, writes `let v = include <t> "<file>";`, builds it through
FileBuilder::build (harness `build`) and compares the bound Val with the
prediction.  Truncated / corrupted variants: whatever the independent decoder
rejects must be a build error; what it still accepts (inside the subset on which
decoders agree) must be included as that document."""
import base64
import json
import math
import os
import random
import re
import shutil
import time

from . import common as C
from . import datamodel as D

PID = "C15"
FORMATS = ["json", "yaml", "toml"]

# ---------------------------------------------------------------------------
# abstract document -> Python object (int / float distinct), abstract value -> Val json
# ---------------------------------------------------------------------------


def doc_py(d, rf):
    k = d["d"]
    if k == "null":
        return None
    if k == "bool":
        return bool(d["b"])
    if k == "num":
        if d["lex"] == "int":
            return rf.int_(d["nc"], tuple(d["at"]))
        return rf.float_(d["nc"], tuple(d["at"]))
    if k == "str":
        return rf.str_(d["sc"], tuple(d["at"]))
    if k == "arr":
        return [doc_py(x, rf) for x in d["xs"]]
    if k == "obj":
        return {rf.key(m["kc"], tuple(m["at"])): doc_py(m["dv"], rf) for m in d["ms"]}
    raise C.ToolError("bad abstract document %r" % (d,))


def val_from_spec(v, rf):
    """FromDoc's value (leaves carry `at`) -> Val json"""
    t = v["t"]
    if t == "null":
        return {"t": "null"}
    if t == "bool":
        return {"t": "bool", "b": v["b"]}
    if t == "int":
        return {"t": "int", "i": rf.int_(v["ic"], tuple(v["at"]))}
    if t == "float":
        r = {"t": "float", "bits": D.fbits(rf.float_(v["fc"], tuple(v["at"])))}
        if v.get("via") == "fewulps":
            r["ulps"] = 4      # the deviation: a neighbouring float
        return r
    if t == "str":
        return {"t": "str", "s": rf.str_(v["sc"], tuple(v["at"]))}
    if t == "list":
        return {"t": "list", "es": [val_from_spec(e, rf) for e in v["es"]]}
    if t == "tuple":
        return {"t": "tuple", "fs": [{"nm": rf.key(f["kc"], tuple(f["at"])), "val": val_from_spec(f["val"], rf)}
                                    for f in v["fs"]]}
    raise C.ToolError("bad predicted value %r" % (v,))


class Outside(Exception):
    """a decoded document outside the subset on which the format's decoders agree"""


def py_to_val(o):
    """What the independent decoder read -> the Val it denotes (same leaf
    correspondence as FromDoc: int -> int, float -> float)."""
    if o is None:
        return {"t": "null"}
    if isinstance(o, bool):
        return {"t": "bool", "b": o}
    if isinstance(o, int):
        if not (D.I64_MIN <= o <= D.I64_MAX):
            raise Outside("integer outside i64")
        return {"t": "int", "i": o}
    if isinstance(o, float):
        return {"t": "float", "bits": D.fbits(o)}
    if isinstance(o, str):
        if any(0xD800 <= ord(ch) <= 0xDFFF for ch in o):
            raise Outside("lone surrogate")
        return {"t": "str", "s": o}
    if isinstance(o, list):
        return {"t": "list", "es": [py_to_val(x) for x in o]}
    if isinstance(o, dict):
        fs = []
        for k, v in o.items():
            if not isinstance(k, str):
                raise Outside("non-string key")
            if any(0xD800 <= ord(ch) <= 0xDFFF for ch in k):
                raise Outside("lone surrogate")
            fs.append({"nm": k, "val": py_to_val(v)})
        return {"t": "tuple", "fs": fs}
    raise Outside("type %s" % type(o).__name__)


def val_mismatch(exp, obs, path="$"):
    """expected Val vs Val bound by the build: ints and floats distinguished, floats
    bit-exact (any NaN for NaN), strings identical, list order, key set (order free)."""
    if obs.get("t") != exp["t"]:
        return "%s: expected %s, got %s" % (path, brief(exp), brief(obs))
    t = exp["t"]
    if t == "null":
        return None
    if t == "bool":
        return None if obs["b"] == exp["b"] else "%s: expected %s, got %s" % (path, exp["b"], obs["b"])
    if t == "int":
        return None if obs["i"] == exp["i"] else "%s: expected int %d, got %d" % (path, exp["i"], obs["i"])
    if t == "float":
        a, b = D.bits_to_float(exp["bits"]), D.bits_to_float(obs["bits"])
        if a != a and b != b:
            return None
        if exp["bits"] == obs["bits"]:
            return None
        if exp.get("ulps") and (a < 0) == (b < 0) and abs(int(exp["bits"], 16) - int(obs["bits"], 16)) <= exp["ulps"]:
            return None
        return "%s: expected float %r (%s), got %r (%s)" % (path, a, exp["bits"], b, obs["bits"])
    if t == "str":
        return None if obs["s"] == exp["s"] else "%s: expected string %r, got %r" % (path, exp["s"], obs["s"])
    if t == "list":
        if len(obs["es"]) != len(exp["es"]):
            return "%s: expected %d items, got %d" % (path, len(exp["es"]), len(obs["es"]))
        for j, (e, o) in enumerate(zip(exp["es"], obs["es"])):
            m = val_mismatch(e, o, "%s[%d]" % (path, j))
            if m:
                return m
        return None
    if t == "tuple":
        en = [f["nm"] for f in exp["fs"]]
        on = [f["nm"] for f in obs["fs"]]
        if sorted(en) != sorted(on):
            return "%s: keys differ: expected %r, got %r" % (path, sorted(en), sorted(on))
        om = {f["nm"]: f["val"] for f in obs["fs"]}
        for f in exp["fs"]:
            m = val_mismatch(f["val"], om[f["nm"]], "%s.%s" % (path, f["nm"]))
            if m:
                return m
        return None
    return "%s: unexpected %s" % (path, t)


def with_ulps(v):
    if v["t"] == "float":
        return dict(v, ulps=4)
    if v["t"] == "list":
        return {"t": "list", "es": [with_ulps(e) for e in v["es"]]}
    if v["t"] == "tuple":
        return {"t": "tuple", "fs": [{"nm": f["nm"], "val": with_ulps(f["val"])} for f in v["fs"]]}
    return v


def brief(v):
    s = json.dumps(v, ensure_ascii=False)
    return s if len(s) < 100 else s[:97] + "..."


def py_same(a, b):
    """type-exact equality of decoded Python documents (NaN equals NaN, -0.0 != 0.0)"""
    if type(a) is not type(b):
        return False
    if isinstance(a, float):
        return (a != a and b != b) or D.fbits(a) == D.fbits(b)
    if isinstance(a, list):
        return len(a) == len(b) and all(py_same(x, y) for x, y in zip(a, b))
    if isinstance(a, dict):
        return set(a.keys()) == set(b.keys()) and all(py_same(a[k], b[k]) for k in a)
    return a == b


# ---------------------------------------------------------------------------
# serialisers that share nothing with ucg
# ---------------------------------------------------------------------------

def emit_json(doc, rng):
    indent = rng.choice([None, None, 1, 2, 4])
    seps = None if indent is not None else rng.choice([None, (",", ":"), (" ,  ", " : ")])
    return json.dumps(doc, ensure_ascii=rng.random() < 0.5, indent=indent, separators=seps,
                      allow_nan=False).encode("utf-8") + (b"\n" if rng.random() < 0.5 else b"")


_YAML_WORDS = {"true", "false", "yes", "no", "on", "off", "y", "n", "null", "nil", "none", "inf", "nan", "~"}
_PLAIN_RX = re.compile(r"[A-Za-z_][A-Za-z0-9_./-]*(?: [A-Za-z0-9_./-]+)*")
_YAML_BREAKS = "\r\x85\u2028\u2029\ufeff"


def _yaml_printable(ch):
    o = ord(ch)
    return (0x20 <= o <= 0x7E or 0xA0 <= o <= 0xD7FF or 0xE000 <= o <= 0xFFFD or 0x10000 <= o <= 0x10FFFF) \
        and ch not in _YAML_BREAKS


def yaml_dq(s, rng):
    out = ['"']
    for ch in s:
        o = ord(ch)
        if ch == "\\":
            out.append("\\\\")
        elif ch == '"':
            out.append('\\"')
        elif ch == "\n":
            out.append("\\n")
        elif ch == "\t":
            out.append("\\t")
        elif ch == "\r":
            out.append("\\r")
        elif ch == "\0":
            out.append("\\0")
        elif _yaml_printable(ch) and (o < 0x7F or rng.random() < 0.7):
            out.append(ch)
        elif o <= 0xFF:
            out.append("\\x%02X" % o)
        elif o <= 0xFFFF:
            out.append("\\u%04X" % o)
        else:
            out.append("\\U%08X" % o)
    out.append('"')
    return "".join(out)


def yaml_scalar(x, rng, flow=False):
    if x is None:
        return rng.choice(["null", "~", "null"])
    if isinstance(x, bool):
        return rng.choice([["false", "False", "FALSE"], ["true", "True", "TRUE"]][x])
    if isinstance(x, int):
        return str(x)
    if isinstance(x, float):
        if x != x:
            return rng.choice([".nan", ".NaN", ".NAN"])
        if x in (float("inf"), float("-inf")):
            return ("-" if x < 0 else "") + rng.choice([".inf", ".Inf", ".INF"])
        r = repr(x)
        if "e" in r:
            m, e = r.split("e")
            if "." not in m:
                m += ".0"
            r = m + "e" + e
        elif "." not in r:
            r += ".0"
        return r
    s = x
    styles = ["dq"]
    if not flow and _PLAIN_RX.fullmatch(s) and s.lower() not in _YAML_WORDS:
        styles.append("plain")
    if s and all(_yaml_printable(ch) or ch == "\t" for ch in s) and "\n" not in s:
        styles.append("sq")
    st = rng.choice(styles)
    if st == "plain":
        return s
    if st == "sq":
        return "'" + s.replace("'", "''") + "'"
    return yaml_dq(s, rng)


def _block_scalar_ok(s):
    if not s or "\n" not in s:
        return False
    body = s[:-1] if s.endswith("\n") else s
    lines = body.split("\n")
    return all(l and l[0] not in " \t" and all(_yaml_printable(ch) or ch == "\t" for ch in l) for l in lines)


def yaml_lines(x, ind, rng):
    """block-style lines for x, indented by ind"""
    pad = " " * ind
    if isinstance(x, list) and x:
        if rng.random() < 0.2 and _flowable(x):
            return [pad + yaml_flow(x, rng)]
        out = []
        for it in x:
            sub = yaml_lines(it, ind + 2, rng)
            if rng.random() < 0.7 or not isinstance(it, (list, dict)) or not it:
                sub[0] = pad + "- " + sub[0][ind + 2:]
                out.extend(sub)
            else:
                out.append(pad + "-")
                out.extend(sub)
        return out
    if isinstance(x, dict) and x:
        if rng.random() < 0.2 and _flowable(x):
            return [pad + yaml_flow(x, rng)]
        out = []
        for k, v in x.items():
            ks = yaml_scalar(k, rng)
            if isinstance(v, (list, dict)) and v:
                sub = yaml_lines(v, ind + 2, rng)
                if len(sub) == 1 and sub[0].lstrip().startswith(("[", "{")):
                    out.append(pad + ks + ": " + sub[0].lstrip())
                else:
                    out.append(pad + ks + ":")
                    out.extend(sub)
            elif isinstance(v, str) and _block_scalar_ok(v) and rng.random() < 0.5:
                body = v[:-1] if v.endswith("\n") else v
                out.append(pad + ks + ": " + ("|" if v.endswith("\n") else "|-"))
                out.extend(" " * (ind + 2) + l for l in body.split("\n"))
            else:
                out.append(pad + ks + ": " + _leaf(v, rng))
        return out
    if isinstance(x, str) and _block_scalar_ok(x) and rng.random() < 0.5:
        body = x[:-1] if x.endswith("\n") else x
        return [pad + ("|" if x.endswith("\n") else "|-")] + [" " * (ind + 2) + l for l in body.split("\n")]
    return [pad + _leaf(x, rng)]


def _leaf(x, rng):
    if isinstance(x, list):
        return "[]"
    if isinstance(x, dict):
        return "{}"
    return yaml_scalar(x, rng)


def _flowable(x):
    if isinstance(x, list):
        return all(_flowable(i) for i in x)
    if isinstance(x, dict):
        return all(_flowable(v) for v in x.values())
    return True


def yaml_flow(x, rng):
    if isinstance(x, list):
        return "[" + ", ".join(yaml_flow(i, rng) for i in x) + "]"
    if isinstance(x, dict):
        return "{" + ", ".join(yaml_dq(k, rng) + ": " + yaml_flow(v, rng) for k, v in x.items()) + "}"
    if isinstance(x, str):
        return yaml_dq(x, rng)
    return yaml_scalar(x, rng, flow=True)


def emit_yaml(doc, rng):
    head = rng.choice(["", "", "---\n", "# generated\n"])
    lines = yaml_lines(doc, 0, rng)
    if head == "---\n" and len(lines) >= 1 and isinstance(doc, (list, dict)) and doc:
        pass
    return (head + "\n".join(lines) + "\n").encode("utf-8")


_BARE_KEY = re.compile(r"[A-Za-z0-9_-]+")


def toml_basic(s, rng):
    out = ['"']
    for ch in s:
        o = ord(ch)
        if ch == "\\":
            out.append("\\\\")
        elif ch == '"':
            out.append('\\"')
        elif ch == "\n":
            out.append("\\n")
        elif ch == "\t":
            out.append(rng.choice(["\\t", "\t"]))
        elif ch == "\r":
            out.append("\\r")
        elif ch == "\b":
            out.append("\\b")
        elif ch == "\f":
            out.append("\\f")
        elif o < 0x20 or o == 0x7F or 0x80 <= o <= 0x9F:
            out.append("\\u%04X" % o)
        elif o >= 0x7F and rng.random() < 0.3:
            out.append("\\u%04X" % o if o <= 0xFFFF else "\\U%08X" % o)
        else:
            out.append(ch)
    out.append('"')
    return "".join(out)


def toml_string(s, rng, inline):
    styles = ["basic"]
    plain = all((0x20 <= ord(ch) and ord(ch) != 0x7F and not 0x80 <= ord(ch) <= 0x9F) or ch == "\t" for ch in s)
    if plain and "'" not in s:
        styles.append("literal")
    if not inline and "\n" in s:
        ok = all(((0x20 <= ord(ch) and ord(ch) != 0x7F and not 0x80 <= ord(ch) <= 0x9F) or ch in "\t\n") for ch in s)
        styles.append("mlbasic")
        if ok and "'" not in s:
            styles.append("mlliteral")
    st = rng.choice(styles)
    if st == "literal":
        return "'" + s + "'"
    if st == "mlliteral":
        return "'''\n" + s + "'''"
    if st == "mlbasic":
        body = "".join("\n" if ch == "\n" else toml_basic(ch, rng)[1:-1] for ch in s)
        return '"""\n' + body + '"""'
    return toml_basic(s, rng)


def toml_key(k, rng):
    if _BARE_KEY.fullmatch(k) and rng.random() < 0.8:
        return k
    if "'" not in k and "\n" not in k and all(0x20 <= ord(ch) and ord(ch) != 0x7F and not 0x80 <= ord(ch) <= 0x9F for ch in k) \
            and rng.random() < 0.3:
        return "'" + k + "'"
    return toml_basic(k, rng)


def toml_inline(x, rng, top=False):
    if isinstance(x, bool):
        return "true" if x else "false"
    if isinstance(x, int):
        s = str(x)
        if abs(x) >= 10000 and rng.random() < 0.3:
            sign = "-" if x < 0 else ""
            digits = s.lstrip("-")
            parts = []
            while len(digits) > 3:
                parts.insert(0, digits[-3:])
                digits = digits[:-3]
            parts.insert(0, digits)
            s = sign + "_".join(parts)
        return s
    if isinstance(x, float):
        if x != x:
            return "nan"
        if x == float("inf"):
            return rng.choice(["inf", "+inf"])
        if x == float("-inf"):
            return "-inf"
        r = repr(x)
        return r
    if isinstance(x, str):
        return toml_string(x, rng, inline=not top)
    if isinstance(x, list):
        if top and x and rng.random() < 0.4:
            return "[\n" + "".join("  " + toml_inline(i, rng) + ",\n" for i in x) + "]"
        return "[" + ", ".join(toml_inline(i, rng) for i in x) + "]"
    if isinstance(x, dict):
        if not x:
            return "{}"
        return "{ " + ", ".join(toml_key(k, rng) + " = " + toml_inline(v, rng) for k, v in x.items()) + " }"
    raise C.ToolError("TOML has no spelling for %r" % (x,))


def toml_table(tbl, path, rng, out):
    later = []
    for k, v in tbl.items():
        if isinstance(v, dict) and rng.random() < 0.7:
            later.append(("table", k, v))
        elif isinstance(v, list) and v and all(isinstance(i, dict) for i in v) and rng.random() < 0.6:
            later.append(("aot", k, v))
        else:
            out.append(toml_key(k, rng) + " = " + toml_inline(v, rng, top=True))
    for kind, k, v in later:
        hp = path + [toml_key(k, rng)]
        if kind == "table":
            out.append("")
            out.append("[" + ".".join(hp) + "]")
            toml_table(v, hp, rng, out)
        else:
            for item in v:
                out.append("")
                out.append("[[" + ".".join(hp) + "]]")
                toml_table(item, hp, rng, out)


def emit_toml(doc, rng):
    out = []
    if rng.random() < 0.3:
        out.append("# generated")
    toml_table(doc, [], rng, out)
    return ("\n".join(out) + "\n").encode("utf-8")


EMIT = {"json": emit_json, "yaml": emit_yaml, "toml": emit_toml}


def decode_one(fmt, b, variant=False):
    """The independent decoder for an include type: one document or Undecodable /
    Outside.  YAML: the YAML 1.1 and the YAML 1.2 core-schema reading must agree,
    otherwise the text is outside the subset on which decoders agree."""
    if fmt == "json":
        try:
            text = b.decode("utf-8")
        except UnicodeDecodeError as e:
            raise D.Undecodable("json: not UTF-8")
        if text.startswith("\ufeff"):
            raise Outside("byte order mark")
        try:
            o = D.decode_json(b)
        except D.Undecodable as e:
            if "duplicate key" in str(e):
                raise Outside("duplicate key")
            raise
        if re.search(r"(?<![0-9.eE+])-0(?![0-9.eE])", text):
            raise Outside("negative zero integer")
        _finite(o, variant)
        return o
    if fmt == "toml":
        o = D.decode_toml(b)
        # a float spelling beyond the f64 range: readers differ (inf / error)
        if not re.search(rb"inf|nan", b):
            _finite(o, variant)
        elif variant and any(_overflows(m.group(0), True) for m in _NUMTOK.finditer(b.decode("utf-8"))):
            raise Outside("float spelling beyond (or at the very edge of) the f64 range")
        return o
    if fmt == "yaml":
        yaml, Core12, Unique = D._yaml_mod()
        try:
            text = b.decode("utf-8")
        except UnicodeDecodeError:
            raise D.Undecodable("yaml: not UTF-8")
        # constructs outside the subset on which YAML decoders agree
        try:
            for ev in yaml.parse(text, Loader=yaml.SafeLoader):
                if getattr(ev, "anchor", None) is not None or isinstance(ev, yaml.events.AliasEvent):
                    raise Outside("anchor / alias")
                if getattr(ev, "tag", None) is not None:
                    raise Outside("explicit tag")
                if isinstance(ev, yaml.events.ScalarEvent) and ev.style is None:
                    if re.fullmatch(r"[-+]?0[0-9_]+(?:\.[0-9_]*)?(?:[eE][-+]?[0-9]+)?", ev.value):
                        raise Outside("number with leading zeros")
                    if ev.value == "<<":
                        raise Outside("merge key")
                    if _NUMTOK.fullmatch(ev.value) and _overflows(ev.value, variant):
                        raise Outside("float spelling beyond (or at the very edge of) the f64 range")
        except (yaml.YAMLError, ValueError, OverflowError) as e:   # ValueError: a \U escape beyond U+10FFFF
            msg = str(e).replace("\n", " ")[:200]
            if "'\\t'" in msg:
                raise Outside("tab where PyYAML refuses one (YAML allows tabs as separation space)")
            # "malformed" = rejected by both YAML readers at hand.  Where the libyaml
            # reference parser accepts what PyYAML's own parser refuses (a comment glued
            # to a block scalar header, ...) the readers disagree: not judged.
            cl = getattr(yaml, "CSafeLoader", None)
            if cl is not None:
                try:
                    for _ in yaml.parse(text, Loader=cl):
                        pass
                    raise Outside("PyYAML's parser rejects, the libyaml reference parser accepts")
                except yaml.YAMLError:
                    pass
                except (ValueError, OverflowError):
                    pass
            raise D.Undecodable("yaml: " + msg)
        res = []
        for loader in (Core12, Unique):
            try:
                res.append(("ok", yaml.load(text, Loader=loader)))
            except Exception as e:
                if "unhashable key" in str(e) or "duplicate key" in str(e):
                    raise Outside("duplicate or non-scalar mapping key")
                res.append(("err", str(e).replace("\n", " ")[:200]))
        if res[0][0] == "err" and res[1][0] == "err":
            raise D.Undecodable("yaml: " + res[0][1])
        if res[0][0] != res[1][0]:
            raise Outside("YAML 1.1 and 1.2 readings differ (one rejects)")
        try:
            same = py_same(res[0][1], res[1][1])
        except Exception:
            same = False
        if not same:
            raise Outside("YAML 1.1 and 1.2 readings differ")
        cl = getattr(yaml, "CSafeLoader", None)
        if variant and cl is not None:
            # a damaged text that PyYAML still reads must also be read, and read alike,
            # by the libyaml reference parser; else the readers disagree (e.g. a tab in
            # the indentation of a block scalar)
            try:
                third = yaml.load(text, Loader=cl)
            except Exception:
                raise Outside("PyYAML's parser accepts, the libyaml reference parser rejects")
            try:
                same3 = py_same(third, res[1][1])
            except Exception:
                same3 = False
            if not same3:
                raise Outside("PyYAML and libyaml read different documents")
        if not re.search(r"\.(?:inf|Inf|INF|nan|NaN|NAN)", text):
            _finite(res[0][1], variant)
        return res[0][1]
    raise C.ToolError("no decoder for %s" % fmt)


_NUMTOK = re.compile(r"[-+]?[0-9][0-9_]*(?:\.[0-9_]*)?(?:[eE][-+]?[0-9]+)?")


def _overflows(tok, edge):
    try:
        x = float(tok.replace("_", ""))
    except ValueError:
        return False
    return math.isinf(x) or (edge and abs(x) == 1.7976931348623157e308)


def _finite(o, edge=False):
    if isinstance(o, float) and not math.isfinite(o):
        raise Outside("float spelling beyond the f64 range")
    if edge and isinstance(o, float) and abs(o) == 1.7976931348623157e308:
        raise Outside("float spelling at the very edge of the f64 range")
    if isinstance(o, list):
        for x in o:
            _finite(x, edge)
    if isinstance(o, dict):
        for x in o.values():
            _finite(x, edge)


def corrupt(b, rng):
    """two damaged variants of a serialised document"""
    out = []
    if len(b) > 1:
        out.append(("truncated", b[:rng.randrange(1, len(b))]))
    p = rng.randrange(len(b)) if b else 0
    op = rng.choice(["replace", "delete", "insert", "dup"])
    junk = b'{}[]:,"\'\\ =#-\n\t\x00&*!|>%@`.0e'
    ch = bytes([junk[rng.randrange(len(junk))]])
    if op == "replace":
        out.append(("replaced", b[:p] + ch + b[p + 1:]))
    elif op == "delete":
        out.append(("deleted", b[:p] + b[p + 1:]))
    elif op == "insert":
        out.append(("inserted", b[:p] + (ch if rng.random() < 0.8 else b"\xff") + b[p:]))
    else:
        q = min(len(b), p + rng.randrange(1, 8))
        out.append(("duplicated", b[:q] + b[p:q] + b[q:]))
    # an emptied file is the "empty" row of the include table, not a damaged document
    return [(k, v) for k, v in out if v != b and v.strip()]


# ---------------------------------------------------------------------------
# worker
# ---------------------------------------------------------------------------

TEXTS = ["hello\n", "no newline at end", "line1\r\nline2\r\n", "\ufeffbom first", "tab\there\n\n\n",
         "nul\x00inside", "unicode \u00e9\u65e5\u672c\U0001F600\n", " ", "\n", "a" * 5000,
         "{\"looks\": \"like json\"}\n", "k: v\n", "x = 1\n", "\x7f\x1b[0m", "\u2028\u2029\x85"]
BINARIES = [b"\xff\xfe\x00\x01", b"\x80", b"abc\xc3", b"\xfb\xff\xbf", bytes(range(256)), b"\x00\xff" * 100,
            b"\xed\xa0\x80"]
MALFORMED = {"json": [b"{\"a\": ", b"[1, 2,]", b"{'a': 1}", b"[1 2]", b"NaN", b"{\"a\": 1} x", b"\"\\x41\"", b"01"],
             "yaml": [b"a: [1, 2", b"a: 1\n b: 2\n", b"\"unterminated", b"a: b: c\n", b"- a\nb: 1\n", b"{a: 1", b"a:\n\t- 1\n: x: y: z\n  - q\n"],
             "toml": [b"a = ", b"a = 1\na = 2\n", b"[t\nx = 1\n", b"a = [1, 2\n", b"= 1\n", b"a = 'x\n", b"a = 1 b = 2\n", b"a = 01\n"]}


_SEQ = [0]     # paths must never repeat within one harness process: its op cache is keyed by path


def work(h, chunk):
    """chunk: list of items
         ("doc", replay object, seed, alter)             documents + damaged variants
         ("rule", rule row, seed, index)                 the include table
       -> result rows"""
    sd = C.scratch_dir("c15w")
    rows = []
    try:
        plan = []
        reqs = []
        n = [0]

        def add(typ, data, judge_info, missing=False, absolute=False):
            n[0] += 1
            _SEQ[0] += 1
            d = os.path.join(sd, "c%d" % _SEQ[0])
            os.makedirs(d)
            fname = "data." + (typ if typ in ("json", "yaml", "toml") else "bin")
            if not missing:
                with open(os.path.join(d, fname), "wb") as f:
                    f.write(data)
            ref = os.path.join(d, fname) if absolute else fname
            with open(os.path.join(d, "main.ucg"), "w") as f:
                f.write('let v = include %s "%s";\n' % (typ, ref))
            plan.append(judge_info)
            reqs.append({"op": "build", "path": os.path.join(d, "main.ucg"), "fresh": False})

        for item in chunk:
            if item[0] == "doc":
                _, obj, seed, alter = item
                cid = D.case_id(obj["value"])
                rf = D.Refiner(seed, cid)
                for e in obj["inc"]:
                    fmt = e["f"]
                    rng = random.Random("%d:%d:%s" % (seed, cid, fmt))
                    doc = doc_py(e["doc"], rf)
                    want = val_from_spec(e["val"], rf)
                    if alter:
                        want = alter_val(want)
                    data = EMIT[fmt](doc, rng)
                    # the bytes must mean the document, says the independent decoder
                    try:
                        back = decode_one(fmt, data)
                    except (D.Undecodable, Outside) as ex:
                        raise C.ToolError("c15 emitter wrote %s that the independent decoder does not accept: %r (%s)"
                                          % (fmt, data[:300], ex))
                    if not py_same(back, doc):
                        raise C.ToolError("c15 emitter wrote %s for another document: %r decodes to %r, wanted %r"
                                          % (fmt, data[:300], back, doc))
                    devinfo = None
                    if e.get("keys"):
                        devinfo = (sorted(e["keys"]), val_from_spec(e["devval"], rf))
                    add(fmt, data, ("value", fmt, want, data, "document", obj, devinfo),
                        absolute=rng.random() < 0.2)
                    for kind, bad in corrupt(data, rng):
                        try:
                            o = decode_one(fmt, bad, variant=True)
                            wv = py_to_val(o)
                            if fmt == "toml" and not _toml_domain(o):
                                raise Outside("datetime")
                            add(fmt, bad, ("value", fmt, wv, bad, kind + " (still a document)", obj, None))
                        except D.Undecodable as ex:
                            add(fmt, bad, ("error", fmt, None, bad, kind + " (rejected: %s)" % str(ex)[:80], obj, None))
                        except Outside as ex:
                            rows.append(("outside", fmt, str(ex)))
            else:
                _, row, seed, idx = item
                rng = random.Random("%d:rule:%d" % (seed, idx))
                typ, ck = row["typ"], row["content"]
                datas = []
                if ck == "empty":
                    datas = [b""]
                elif ck == "missing":
                    datas = [None]
                elif ck == "text":
                    datas = [t.encode("utf-8") for t in rng.sample(TEXTS, 5)]
                elif ck == "binary":
                    datas = rng.sample(BINARIES, 3)
                elif ck == "malformed":
                    datas = rng.sample(MALFORMED[typ], 3) if typ in MALFORMED else [b"{\"a\": "]
                for data in datas:
                    if typ in MALFORMED and ck == "malformed":
                        try:
                            decode_one(typ, data)
                            raise C.ToolError("c15: %r is not malformed %s" % (data, typ))
                        except D.Undecodable:
                            pass
                        except Outside:
                            continue
                    add(typ, data or b"", ("rule", typ, row, data, ck, None, None), missing=data is None)
        resps = h.batch(reqs)
        for info, r in zip(plan, resps):
            rows.append(judge(info, r))
    finally:
        shutil.rmtree(sd, ignore_errors=True)
    return rows


def _toml_domain(o):
    if isinstance(o, dict):
        return all(_toml_domain(v) for v in o.values())
    if isinstance(o, list):
        return all(_toml_domain(v) for v in o)
    return o is None or isinstance(o, (bool, int, float, str))


def alter_val(v):
    """binding demo: change the predicted value"""
    if v["t"] == "int":
        return {"t": "float", "bits": D.fbits(float(v["i"]))}
    if v["t"] == "list":
        return {"t": "list", "es": v["es"] + [{"t": "null"}]}
    if v["t"] == "tuple":
        return {"t": "tuple", "fs": v["fs"][1:]} if v["fs"] else {"t": "list", "es": []}
    if v["t"] == "null":
        return {"t": "bool", "b": False}
    return {"t": "null"}


def observed(r):
    """harness `build` response -> ('value', Val) | ('error', msg) | ('crash', msg)"""
    if "crash" in r:
        return ("crash", "%s: %s" % (r["crash"], r.get("msg", "")))
    out = r.get("out", {})
    if out.get("k") == "ok":
        for f in out.get("val", {}).get("fs", []):
            if f["nm"] == "v":
                return ("value", f["val"])
        return ("error", "no binding v")
    return ("error", out.get("msg", ""))


def judge(info, r):
    kind, typ, want, data, what, obj, devinfo = info
    obs = observed(r)
    case = {"type": typ, "content": what, "bytes_b64": base64.b64encode(data or b"").decode(),
            "missing": data is None, "kind": kind, "want": want,
            "text": (data or b"").decode("utf-8", "replace")[:400],
            "observed": obs[1] if obs[0] != "value" else obs[1]}
    if obj is not None:
        case["abstract"] = obj
    if obs[0] == "crash":
        case["why"] = "crash: " + obs[1]
        return ("bad", None, case)
    if kind == "value":
        case["expected"] = want
        if obs[0] != "value":
            case["why"] = "expected a value, the build failed: %s" % obs[1][-200:]
            return ("bad", None, case)
        m = val_mismatch(want, obs[1])
        if m:
            case["why"] = m
            if devinfo and val_mismatch(devinfo[1], obs[1]) is None:
                return ("dev", devinfo[0], case)
            if typ == "json" and what != "document" and val_mismatch(with_ulps(want), obs[1]) is None:
                # a damaged variant that is still a document with a float in it
                return ("dev", ["include-json-float-not-correctly-rounded"], case)
            return ("bad", None, case)
        return ("ok", typ, what.split(" ")[0], len(data))
    if kind == "error":
        case["expected"] = "build error"
        if obs[0] == "value":
            case["why"] = "the independent decoder rejects the file, ucg includes it as %s" % brief(obs[1])
            return ("bad", None, case)
        return ("ok", typ, what.split(" ")[0], len(data))
    # rule rows: the outcome kind comes from DataModel.tla's Include table
    row = want

    def meets(k, val):
        if k == "dontcare":
            return None
        if k == "error":
            return None if obs[0] == "error" else "expected a build error, got %s" % brief(obs[1])
        if obs[0] != "value":
            return "expected %s, the build failed: %s" % (k, obs[1][-200:])
        if k == "text":
            try:
                txt = data.decode("utf-8")
            except UnicodeDecodeError:
                return None
            return val_mismatch({"t": "str", "s": txt}, obs[1])
        if k == "b64std":
            return val_mismatch({"t": "str", "s": base64.standard_b64encode(data).decode()}, obs[1])
        if k == "b64url":
            return val_mismatch({"t": "str", "s": base64.urlsafe_b64encode(data).decode()}, obs[1])
        if k == "value":
            return val_mismatch(val, obs[1])
        if k == "decoder":
            try:
                o = decode_one(typ, data)
                if typ == "toml" and not _toml_domain(o):
                    return None
                return val_mismatch(py_to_val(o), obs[1])
            except D.Undecodable:
                return "the independent decoder rejects the file, ucg includes it as %s" % brief(obs[1])
            except Outside:
                return None
        raise C.ToolError("unknown outcome kind %r" % k)

    def meets_any(k, val):
        if k == "decoder" and obs[0] == "error":
            try:
                o = decode_one(typ, data)
                if typ == "toml" and not _toml_domain(o):
                    return None
                return "the independent decoder reads %s, the build failed: %s" % (D.short(o), obs[1][-200:])
            except D.Undecodable:
                return None
            except Outside:
                return None
        return meets(k, val)

    case["expected"] = row["exp"]
    why = meets_any(row["exp"], row.get("expval"))
    if why is None:
        return ("ok", typ, what, len(data or b""))
    case["why"] = why
    if row.get("keys"):
        if meets_any(row["imp"], row.get("impval")) is None:
            return ("dev", sorted(row["keys"]), case)
    return ("bad", None, case)


# ---------------------------------------------------------------------------
# main
# ---------------------------------------------------------------------------
INVS = ["ExpectWellFormed", "ErrorIffUnrepresentable", "RoundTrip", "ConvAgrees", "ImportAgrees", "IncludeAgrees",
        "EmitC15", "EmitRules"]
CORE = ["null", "true", "i_pos", "f_f15", "s_plain"]


def configs(tier, gd):
    from .c03 import sim_configs
    rare = [x for x in D.ALL_LEAVES if x not in CORE and x != "con"]
    pool = [x for x in D.ALL_LEAVES if x != "con"]
    shape_core = ["i_pos", "s_uni"]
    shape_rare = ["null", "elist", "etuple", "f_f1e20", "i_min"]
    runs = []
    if tier == "quick":
        D.write_cfg(gd, "mc_leaf", 3, 3, 3, 1, CORE, rare, INVS)
        runs.append(("mc", "mc_leaf", None, None,
                     "exhaustive: documents of <=3 nodes, 5 core leaf classes + <=1 of the 26 other leaf classes"))
        D.write_cfg(gd, "mc_shape", 3, 3, 4, 1, shape_core, shape_rare, INVS)
        runs.append(("mc", "mc_shape", None, None,
                     "exhaustive: documents of <=4 nodes, depth <=3, <=3 children, leaves {int, non-ASCII string} + "
                     "<=1 of {null, [], {}, 1e20, i64::MIN}"))
        runs += sim_configs(gd, 2, 25, 12, C.seed(), pool, INVS)
    else:
        D.write_cfg(gd, "mc_leaf", 3, 3, 4, 1, CORE, rare, INVS)
        runs.append(("mc", "mc_leaf", None, None,
                     "exhaustive: documents of <=4 nodes, depth <=3, 5 core leaf classes + <=1 of the 26 other leaf classes"))
        D.write_cfg(gd, "mc_shape", 4, 3, 5, 1, shape_core, shape_rare, INVS)
        runs.append(("mc", "mc_shape", None, None,
                     "exhaustive: documents of <=5 nodes, depth <=4, <=3 children, leaves {int, non-ASCII string} + "
                     "<=1 of {null, [], {}, 1e20, i64::MIN}"))
        runs += sim_configs(gd, 8, 400, 14, C.seed(), pool, INVS)
    return runs


def _by_depth(docs):
    h = {}
    for o in docs:
        k = str(D.depth_of(o["value"]))
        h[k] = h.get(k, 0) + 1
    return dict(sorted(h.items()))


def do_replay(hp, path):
    blob = json.load(open(path))
    case = blob["case"]
    sd = C.scratch_dir("c15r")
    try:
        data = None if case.get("missing") else base64.b64decode(case["bytes_b64"])
        typ = case["type"]
        fname = "data." + (typ if typ in FORMATS else "bin")
        if data is not None:
            open(os.path.join(sd, fname), "wb").write(data)
        open(os.path.join(sd, "main.ucg"), "w").write('let v = include %s "%s";\n' % (typ, fname))
        h = C.Harness(hp)
        r = h.req({"op": "build", "path": os.path.join(sd, "main.ucg"), "fresh": True})
        h.close()
    finally:
        shutil.rmtree(sd, ignore_errors=True)
    obs = observed(r)
    verdict = judge((case["kind"], typ, case["want"], data, case["content"], None, None), r)
    ok = verdict[0] == "ok"
    print("replay %s: include %s -> %s" % (path, typ, brief(obs[1]) if obs[0] == "value" else "error: " + obs[1][-160:]))
    print("replay %s: %s" % (path, "agrees with the specification" if ok else
                             "DISAGREES (%s)%s" % (verdict[2].get("why"), " known deviation %s" % verdict[1] if verdict[0] == "dev" else "")))
    if not ok:
        print("VIOLATION property=%s replay=%s" % (PID, path))
    return 0 if ok else 1


def main(tier, replay=None):
    t0 = time.time()
    D.check_tables()
    hp = C.ensure_harness()
    if replay:
        return do_replay(hp, replay)
    rep = C.Reporter(PID)
    sd = C.seed()
    gd = C.gen_dir("c15")
    with open(os.path.join(gd, "MC_DataModel.tla"), "w") as f:
        f.write("---- MODULE MC_DataModel ----\nEXTENDS DataModel\n====\n")
    runs = configs(tier, gd)
    alter_demo = os.environ.get("VERIF_C15_ALTER") == "1"
    states = trans = 0
    cmds = []
    docs = []
    rules = {}
    seen = set()
    for kind, name, num, depth, what in runs:
        r = C.run_tlc("MC_DataModel", name, workers=6, simulate=num, depth=depth, gendir=gd,
                      timeout=3000, heap="6g")
        cmds.append(r.cmd)
        if r.violation:
            raise C.ToolError("DataModel.tla: %s violated in %s — reference and transcription disagree inside the "
                              "model; inspect before trusting replay.\n%s" % (r.violation, what, r.errtext[:3000]))
        C.require_tlc_ok(r, what)
        states += r.distinct or r.generated
        trans += r.generated
        new = 0
        for o in r.replays:
            if "rule" in o:
                rules[(o["rule"]["typ"], o["rule"]["content"])] = o["rule"]
                continue
            if not o.get("inc"):
                continue
            key = json.dumps(o["value"], sort_keys=True)
            if key in seen:
                continue
            seen.add(key)
            docs.append(o)
            new += 1
        C.log("[c15] %s: %d states, %d new abstract documents, %.0fs" % (what, r.distinct or r.generated, new, r.wall))
        r.replays = []
    shutil.rmtree(gd, ignore_errors=True)
    if not docs or not rules:
        raise C.ToolError("TLC emitted no document / no include table (vacuous run)")

    items = [("doc", o, sd, alter_demo and i == 5) for i, o in enumerate(docs)]
    reps = 3 if tier == "quick" else 12
    for rep_i in range(reps):
        for j, row in enumerate(sorted(rules.values(), key=lambda r: (r["typ"], r["content"]))):
            items.append(("rule", row, sd, rep_i * 1000 + j))
    rows = C.proc_map(hp, work, items, chunk=150, timeout=30.0)

    evals = 0
    by = {}
    outside = {}
    nontriv = set()
    devcount = {}
    clusters = {}
    samples = []
    for x in rows:
        if x[0] == "ok":
            evals += 1
            by[(x[1], x[2])] = by.get((x[1], x[2]), 0) + 1
        elif x[0] == "outside":
            outside[x[1] + ": " + x[2]] = outside.get(x[1] + ": " + x[2], 0) + 1
        elif x[0] == "dev":
            evals += 1
            for k in x[1]:
                devcount[k] = devcount.get(k, 0) + 1
                rep.disagree(x[2], key=k)
        else:
            evals += 1
            rep.disagree(x[2], key=None)
            why = str(x[2]["why"])
            if "Error building file" in why:
                why = why.split("main.ucg", 1)[-1]
            sig = "%s %s: %s" % (x[2]["type"], x[2]["content"].split(" ")[0], re.sub(r"[0-9]+", "N", why)[:110].replace("\n", " "))
            clusters.setdefault(sig, []).append(x[2])
    for sig, cs in sorted(clusters.items(), key=lambda kv: -len(kv[1]))[:40]:
        C.log("[c15] unexplained x%d: %s   e.g. %r" % (len(cs), sig, cs[0]["text"][:160]))

    # samples: re-create three documents of this run for the reader
    for o in docs[:: max(1, len(docs) // 4)][:4]:
        cid = D.case_id(o["value"])
        rf = D.Refiner(sd, cid)
        e = o["inc"][len(samples) % len(o["inc"])]
        data = EMIT[e["f"]](doc_py(e["doc"], rf), random.Random("%d:%d:%s" % (sd, cid, e["f"])))
        samples.append({"include": e["f"], "file": data.decode("utf-8", "replace")[:300],
                        "expected_value": val_from_spec(e["val"], rf)})
        nontriv.add(cid)
    nontriv = len({D.case_id(o["value"]) for o in docs if D.count_nodes(o["value"]) >= 2})
    code = rep.finish()
    C.write_evidence(PID, tier, "model_checking", {
        "states": states, "transitions": trans,
        "traces_validated_against_impl": evals,
        "evaluations": evals,
        "distinct_nontrivial": nontriv,
        "rule": "every abstract document TLC explores is refined (seeded members), serialised independently of ucg per "
                "format that can hold it, cross-checked with the independent decoder, included through FileBuilder::build "
                "and compared with the value DataModel.tla's FromDoc predicts; plus two damaged variants of each file and "
                "the include table (type x content kind). One evaluation = one include built and judged; non-trivial = "
                "distinct abstract document with >= 2 nodes",
        "samples": samples,
        "abstract_documents": len(docs),
        "abstract_documents_by_depth": _by_depth(docs),
        "includes_by_type_and_content": {"%s/%s" % k: v for k, v in sorted(by.items())},
        "variants_outside_agreed_subset_not_judged": outside,
        "known_deviation_cases": devcount,
        "include_table_rows": len(rules),
        "exhaustive": False,
        "exhaustive_note": "the mc_* configurations enumerate their bounded document domain completely; leaf classes, "
                           "serialisation styles and damage are sampled per seed",
        "checker_cmd": " ; ".join(cmds),
        "configs": [w for _, _, _, _, w in runs],
        "trusted_base": ["TLC", "vp/c15.py emitters (cross-checked on every file by the decoders below)",
                         "Python json (strict), PyYAML pure-Python parser under both the YAML 1.1 and the 1.2 core schema, "
                         "tomllib, base64", "harness Val projection (harness/src/proj.rs val_json)"],
    }, time.time() - t0, violations=len(rep.violations),
        assumptions=[
            "key order of included mappings is not compared",
            "documents stay inside the subset on which decoders agree: unique string keys, no anchors/tags/merge keys, "
            "integers within i64, no `-0` integer, no float spelling beyond the f64 range, no TOML datetimes, YAML scalars "
            "on which the YAML 1.1 and 1.2 schemas agree; damaged variants outside it are counted, not judged",
            "`include str` of a file that is not UTF-8 has no text to preserve: either outcome accepted",
            "a damaged YAML file counts as malformed when PyYAML's pure-Python parser AND (where installed) the libyaml "
            "reference parser reject it; where the two disagree the variant is counted as outside the agreed subset",
            "file names are ASCII (non-ASCII string literals are C11's subject)",
        ])
    return code
