"""C09 — imports resolve against the importing file, run once, and cycles are errors.

Build.tla is model-checked (ResolveRelToFile, EvalOnce, EvalOrder, SameValue,
CycleIsDiagnostic) over every project of <= 3 files in two nested directories:
all import graphs including cyclic ones, import/include at the seven syntactic
positions, three spellings per path, three working directories.  Every explored
project is materialised -- each file names itself, re-exports what it imported and
prints one TRACE line -- and built with the real `ucg build` from each working
directory: outcome, diagnostic class, the entry's artifact (the tree of names the
specification predicts), the sequence of TRACE lines (one per evaluation), no crash;
artifacts byte-identical across working directories.  The import / cache events of
the same executions are validated against BuildTrace.tla."""
import json
import os
import random
import shutil
import time

from . import buildproj as B
from . import common as C

PID = "C09"
DEVS = {"PushAfterCompletion", "WalkerSkips", "RawPathKeys", "CreateBeforeConvert", "OutLockNeverReset"}


def tree_with(lay, f, got, upto=None, seen=()):
    """tree of names when import (af, ai) delivers file got[(af, ai)] (the deviation's prediction)"""
    body = lay.case["body"][f - 1]
    kids, incs = [], []
    for i, s in enumerate(body, 1):
        if upto is not None and i >= upto:
            break
        if s["k"] == "imp" and s["pos"] == "fmtExpr":
            g = got.get((f, i), s["tgt"])
            kids.append(B.fmt_leaf(lay, g) if g else None)
        elif s["k"] == "imp" and s["pos"] not in ("failMsg", "conAnn"):
            g = got.get((f, i), s["tgt"])
            kids.append(tree_with(lay, g, got, None, seen + (f,)) if g and g not in seen + (f,) else None)
        elif s["k"] == "inc" and s["pos"] not in ("failMsg", "conAnn"):
            g = got.get((f, i), s["tgt"])
            incs.append("DATA:" + lay.ident(g) if g else None)
    t = {"name": lay.ident(f), "kids": kids, "incs": incs}
    if upto is not None:
        t["at"] = str(upto)
    return t


def view(lay, pf, is_expect):
    """prediction for the entry file at the level of what a build shows"""
    okay = pf["okay"] if is_expect else pf["res"] == "ok"
    clss = sorted(pf["clss"]) if is_expect else ([pf["cls"]] if pf["cls"] else [])
    arts = {}
    got = {} if is_expect else {(r["af"], r["ai"]): r["got"] for r in pf.get("imps", [])}
    for a in pf["disk"]:
        if a["c"] == "out":
            arts[lay.artifact(a["af"], a["ext"])] = tree_with(lay, a["af"], got, upto=a["ci"])
        else:
            arts[lay.artifact(a["af"], a["ext"])] = "partial"
    return {"okay": okay, "clss": clss, "arts": arts, "tr": [lay.ident(f) for f in pf["tr"]],
            "tr_det": len(clss) <= 1}


def observe(lay, obs, arg, snap):
    po = B.project_build(obs, lay, [arg])
    if po["crashed"] or len(po["files"]) != 1:
        return {"crashed": po["crashed"] or "no Building block", "rc": po["rc"], "out": obs.text[-600:]}
    of = po["files"][0]
    arts = {}
    for p, b in snap.items():
        try:
            arts[p] = json.loads(b.decode("utf-8"))
        except ValueError:
            arts[p] = "partial"
    return {"okay": of["okay"], "cls": of["cls"], "arts": arts, "tr": of["traces"], "rc": po["rc"], "msg": of["msg"][:400]}


def agrees(v, o, exit_code):
    why = []
    if "crashed" in o:
        return ["the process died: %s (status %s)" % (o["crashed"], o["rc"])]
    if o["okay"] != v["okay"]:
        why.append("build %s, specification says %s" % ("ok" if o["okay"] else "failed: " + o["msg"], "ok" if v["okay"] else "fails with %s" % v["clss"]))
    elif not v["okay"] and o["cls"] not in v["clss"]:
        why.append("diagnostic class %s, specification says %s: %s" % (o["cls"], v["clss"], o["msg"]))
    if o["rc"] != exit_code:
        why.append("exit status %s, specification says %s" % (o["rc"], exit_code))
    if o["arts"] != v["arts"]:
        why.append("artifacts %s, specification says %s" % (json.dumps(o["arts"], sort_keys=True), json.dumps(v["arts"], sort_keys=True)))
    if v["tr_det"] and o["tr"] != v["tr"]:
        why.append("TRACE lines (one per evaluation) %s, specification says %s" % (o["tr"], v["tr"]))
    return why


def run_case(job):
    idx, case, devcase, ucg, base, sd = job
    rng = random.Random(sd * 15485863 + idx)
    root = B.case_dir(base, idx)
    lay = B.materialise(case, root, rng)
    arg = lay.arg_for(1)
    obs = B.run_ucg(ucg, ["build", arg], lay.cwd(), os.path.join(root, "home"), trace_file=os.path.join(root, "trace.ndjson"),
                    timeout=10)
    snap = B.snapshot(lay)
    o = observe(lay, obs, arg, snap)
    v = view(lay, case["expect"][0]["files"][0], True)
    res = {"idx": idx, "ok": True, "fired": [], "events": B.abstract_events(lay, obs.trace),
           "bytes": {p: b for p, b in snap.items()}, "okay": o.get("okay"),
           "text": render_text(lay, case)}
    why = agrees(v, o, case["expect"][0]["exit"])
    if why:
        res["ok"] = False
        for dc in (devcase or []):
            if not dc["fired"]:
                continue
            dv = view(lay, dc["got"][0]["files"][0], False) if dc["got"][0]["files"] else None
            if dc["got"][0]["exit"] == 134:
                explained = "crashed" in o and o["crashed"] == "abort"
            else:
                explained = dv is not None and not agrees(dv, o, dc["got"][0]["exit"])
                # recursion over ever longer un-normalised paths: the model ends it at its PATH_MAX;
                # the real one may exhaust the stack or the time budget first
                if not explained and "RawPathKeys" in dc["fired"]:
                    explained = "crashed" in o and o["crashed"] in ("abort", "timeout")
            if explained:
                res["fired"] = sorted(dc["fired"])
                break
        res["report"] = {"project": {lay.rel_file(f): open(lay.abs_file(f)).read() for f in range(1, lay.nf + 1)},
                         "invocation": {"cwd": B.DIRS[case["cwd"]], "argv": ["ucg", "build", arg.replace(root, "$ROOT")]},
                         "abstract": {k: case[k] for k in ("lay", "body", "cmd", "cwd", "ord")},
                         "expected": v, "observed": o, "why": why}
    shutil.rmtree(root, ignore_errors=True)
    return res


def render_text(lay, case):
    parts = []
    for f in range(1, lay.nf + 1):
        st = ["%s %s%s" % (s["k"], (lay.spell(f, s) + "@" + s["pos"]) if s["k"] in ("imp", "inc") else "", "")
              for s in case["body"][f - 1]]
        parts.append("%s:[%s]" % (lay.rel_file(f), ", ".join(st)))
    return " ".join(parts) + " ; cwd=" + B.DIRS[case["cwd"]]


def nontrivial(case):
    """the entry imports something, from a position other than a plain top-level let or
    with a non-trivial spelling or through another file"""
    b1 = case["body"][0]
    imps = [s for s in b1 if s["k"] in ("imp", "inc")]
    if not imps:
        return False
    deep = any(s2["k"] == "imp" for s in imps for s2 in case["body"][s["tgt"] - 1])
    return deep or any(s["pos"] != "top" or s["sp"] in (2, 3) for s in imps)


def main(tier, replay=None):
    t0 = time.time()
    rep = B.reporter(PID)
    ucg = C.ensure_ucg()
    sd = C.seed()
    gd = C.gen_dir("c09")
    base = C.scratch_dir("c09")
    if replay:
        return do_replay(replay, ucg, base)
    cfgs = (["c09_pos", "c09_graph_q", "c09_twin", "c09_std"] if tier == "quick"
            else ["c09_pos", "c09_graph_t", "c09_twin", "c09_graph4", "c09_std"])
    budget = 900 if tier == "quick" else 6000
    opendevs = B.open_deviations() & DEVS
    states = trans = 0
    cmds = []
    cases, devcases = {}, {}
    for cfg in cfgs:
        r, r2 = B.run_design_and_deviations(gd, cfg, opendevs, timeout=3000)
        cmds.append(r.cmd)
        if r.violation:
            raise C.ToolError("Build.tla (%s, Deviations = {}): invariant %s violated -- the design itself breaks the "
                              "property; inspect the specification.\n%s" % (cfg, r.violation, r.errtext[:3000]))
        C.require_tlc_ok(r, cfg)
        states += r.distinct
        trans += r.generated
        C.log("[c09] %s: %d states, %d projects x cwd, %.0fs" % (cfg, r.distinct, len(r.replays), r.wall))
        for c in r.replays:
            k = B.case_key(c)
            c["_cfg"] = cfg
            cases.setdefault(k, c)
        if r2 is not None:
            C.require_tlc_ok(r2, cfg + " with deviations")
            cmds.append(r2.cmd)
            for c in r2.replays:
                devcases.setdefault(B.case_key(c), []).append(c)
    if tier == "thorough":
        # projects of 6 and 8 files in the two directories, random graphs (cyclic ones included), every position
        for nf, n in ((6, 1500), (8, 1000)):
            fs = ", ".join(str(i) for i in range(1, nf + 1))
            sc, sdv, st2, tr2 = B.sampled_cases(
                gd, "c09_%d" % nf, nf,
                "{ [f \\in 1..%d |-> IF f = 1 THEN WithOut(b[1]) ELSE b[f]] : b \\in RandomSubset(%d, [1..%d -> "
                "[1..2 -> ImpA({%s}, {1, 2, 3}, Positions \\ {\"failMsg\"}) \\cup {Lit}]]) }" % (nf, n, nf, fs),
                "OrdersFirst",
                '{ [dir |-> << %s >>, nm |-> << %s >>] }' % (", ".join(str(i % 2) for i in range(nf)),
                                                            ", ".join('"%s"' % "abcdefgh"[i] for i in range(nf))),
                "CmdBuild", "CwdAll", 1, opendevs, cmds)
            states += st2
            trans += tr2
            for k, c in sc.items():
                cases.setdefault(k, c)
            for k, v in sdv.items():
                devcases.setdefault(k, []).extend(v)
    # group the (project, cwd) cases by project: a chosen project is built from every cwd explored
    groups = {}
    for k, c in cases.items():
        groups.setdefault(json.dumps([c["lay"], c["body"]], sort_keys=True), []).append(k)
    gkeys = sorted(groups)
    rng = random.Random(sd)
    rng.shuffle(gkeys)
    gkeys.sort(key=lambda g: 0 if nontrivial(cases[groups[g][0]]) else 1)
    chosen = []
    slow = 0      # projects on which an open deviation predicts resource exhaustion: a few are enough
    slow_cap = 8 if tier == "quick" else 60
    # every configuration gets its share of the budget (a small one is taken whole), and within a configuration
    # no outcome class more than half of it: the graph families are dominated by cycles, whose builds say little
    # about evaluation counts
    share = {}
    later = []
    per_cfg = max(1, budget // max(1, len(set(c.get("_cfg") for c in cases.values()))))
    for g in gkeys:
        c0 = cases[groups[g][0]]
        cf = c0.get("_cfg")
        e0 = c0["expect"][0]["files"][0]
        cl = "ok" if e0["okay"] else ("cycle" if "ImportCycle" in e0["clss"] else "fail")
        if share.get(cf, 0) + len(groups[g]) > per_cfg or share.get((cf, cl), 0) + len(groups[g]) > (per_cfg + 1) // 2:
            later.append(g)
            continue
        if len(chosen) + len(groups[g]) > budget:
            break
        share[cf] = share.get(cf, 0) + len(groups[g])
        share[(cf, cl)] = share.get((cf, cl), 0) + len(groups[g])
        ds = devcases.get(groups[g][0]) or []
        if any(d["got"][0]["exit"] == 134 or "RawPathKeys" in d["fired"] for d in ds):
            slow += 1
            if slow > slow_cap:
                continue
        chosen += sorted(groups[g])
    for g in later:             # what the shares left of the budget
        if len(chosen) + len(groups[g]) > budget:
            break
        chosen += sorted(groups[g])
    jobs = [(i, cases[k], devcases.get(k), ucg, base, sd) for i, k in enumerate(chosen)]
    cnt = {"cycle -> diagnostic": 0, "build ok": 0, "same file imported twice": 0, "import through an import": 0,
           "include": 0, "cwd p": 0, "cwd p/s": 0, "cwd elsewhere": 0, "entry in the sub-directory": 0,
           "same name in two directories": 0}
    for pos in ("top", "nested", "funcBody", "callback", "failMsg", "moduleBody", "moduleOut", "fmtExpr", "conAnn"):
        cnt["position " + pos] = 0
    for sp in (1, 2, 3):
        cnt["spelling %d" % sp] = 0
    for k in chosen:
        c = cases[k]
        e = c["expect"][0]["files"][0]
        b1 = c["body"][0]
        cnt["cycle -> diagnostic"] += "ImportCycle" in e["clss"]
        cnt["build ok"] += e["okay"]
        tg = [s["tgt"] for s in b1 if s["k"] == "imp"]
        cnt["same file imported twice"] += len(tg) != len(set(tg))
        cnt["import through an import"] += any(s2["k"] == "imp" for s in b1 if s["k"] == "imp" for s2 in c["body"][s["tgt"] - 1])
        cnt["include"] += any(s["k"] == "inc" for s in b1)
        cnt[{0: "cwd p", 1: "cwd p/s", 2: "cwd elsewhere"}[c["cwd"]]] += 1
        cnt["entry in the sub-directory"] += c["lay"]["dir"][0] == 1
        cnt["same name in two directories"] += len(set(c["lay"]["nm"])) < len(c["lay"]["nm"])
        for s in b1:
            if s["k"] in ("imp", "inc"):
                cnt["position " + s["pos"]] += 1
                if s["sp"] in (1, 2, 3):
                    cnt["spelling %d" % s["sp"]] += 1
    B.require_nonvacuous("c09", cnt)
    B.binding_demo(jobs)
    results = B.pool_map(run_case, jobs, workers=8)
    by_nf = {}
    nontriv = set()
    samples = []
    across = {}
    for (i, case, *_), res in zip(jobs, results):
        if res["ok"] or res["fired"]:
            # executions that ran into resource exhaustion (model: PATH_MAX / stack bound) are not comparable step by step
            if not (case["expect"][0]["exit"] == 134 or res.get("okay") is None
                    or {"RawPathKeys", "PushAfterCompletion"} & set(res["fired"])):
                by_nf.setdefault(case["nf"], []).append((case, res["events"]))
        if not res["ok"]:
            if res["fired"]:
                for d in res["fired"]:
                    rep.disagree(res["report"], key=[k for k, v in B.DEV_OF_KEY.items() if v == d][0])
            else:
                rep.disagree(res["report"], key=None)
        else:
            across.setdefault(json.dumps([case["lay"], case["body"]], sort_keys=True), []).append((case["cwd"], res["bytes"], res["text"]))
        if nontrivial(case):
            nontriv.add(res["text"])
        if len(samples) < 6 and nontrivial(case) and i % 61 == 0:
            samples.append(res["text"])
    # artifacts byte-identical across working directories
    cross = 0
    for g, lst in across.items():
        if len(lst) >= 2:
            cross += 1
            first = lst[0]
            for other in lst[1:]:
                if other[1] != first[1]:
                    rep.disagree({"what": "artifacts differ between working directories", "a": first[2], "b": other[2],
                                  "bytes_a": {k: v.decode("utf-8", "replace") for k, v in first[1].items()},
                                  "bytes_b": {k: v.decode("utf-8", "replace") for k, v in other[1].items()}}, key=None)
    tv_runs = tv_events = 0
    if os.path.exists(os.path.join(C.SPEC, "BuildTrace.tla")):
        for nf, runs in sorted(by_nf.items()):
            runs = runs[: (400 if tier == "quick" else 4000)]
            if not any(evs for _, evs in runs):
                raise C.ToolError("no hook events recorded: is the ucg binary built with the `verif` feature?")
            okay, info = B.validate_traces(gd, runs, nf, opendevs, "c09_%d" % nf, timeout=1800)
            cmds.append(info.get("cmd", ""))
            if not okay:
                rep.disagree({"trace_validation": "BuildTrace.tla rejects a recorded `ucg build` execution", "info": info}, key=None)
            else:
                tv_runs += info["runs"]
                tv_events += info["events"]
                states += info.get("states", 0)
    code = rep.finish()
    shutil.rmtree(base, ignore_errors=True)
    if code == 0:
        shutil.rmtree(gd, ignore_errors=True)      # kept after a violation: the trace files are evidence
    C.write_evidence(PID, tier, "model_checking", {
        "states": states, "transitions": trans,
        "traces_validated_against_impl": len(results) + tv_runs,
        "evaluations": len(results),
        "distinct_nontrivial": len(nontriv),
        "rule": "Build.tla explores (a) two-file projects with the entry's import/include at each of 7 positions x 3 "
                "spellings (+ a second import) x 3 layouts x 3 working directories, (b) every import graph on three files "
                "(entry <= 2 imports, others <= 1; thorough: <= 2 each) incl. self-imports and cycles through statically "
                "visible and invisible imports, (c) a layout with the same file name in both directories; a seeded "
                "sample of projects, non-trivial first, is built from every working directory explored; non-trivial = "
                "the entry imports through another file, from a non-top position or with a redundant spelling",
        "samples": samples,
        "model_cases_explored": len(cases),
        "projects_compared_across_cwds": cross,
        "trace_events_validated": tv_events, "trace_runs_validated": tv_runs,
        "exhaustive": False,
        "exhaustive_note": "TLC enumerates the stated bounds completely; the binary sees a seeded sample",
        "checker_cmd": " ; ".join(c for c in cmds if c),
        "open_deviations": sorted(opendevs),
        "trusted_base": ["TLC", "vp/buildproj.py renderer and output parser", "the `verif` hooks of ucg (events only)"],
    }, time.time() - t0, violations=len(rep.violations),
        assumptions=["which let forms the static checker resolves (StaticVisible in Build.tla) follows the renderings of "
                     "vp/buildproj.py; the trace validation of shape_cache events checks that table on every run",
                     "entry files are named by a path that needs no normalisation (relative below the cwd, else absolute)",
                     "TRACE lines are compared as a sequence only when the predicted diagnostic class is unique"])
    return code


def do_replay(path, ucg, base):
    case = json.load(open(path))["case"]
    if "project" not in case:
        print("replay %s: not a project case" % path)
        return 2
    root = B.case_dir(base, 0)
    ab = case["abstract"]
    fake = {"nf": len(ab["body"]), "lay": ab["lay"], "body": ab["body"], "cmd": "build", "cwd": ab["cwd"], "ord": ab["ord"]}
    lay = B.Layout(fake, root)
    for d in B.DIRS.values():
        os.makedirs(os.path.join(root, d), exist_ok=True)
    for rel, text in case["project"].items():
        with open(os.path.join(root, rel), "w") as fh:
            fh.write(text)
    for f in range(1, lay.nf + 1):
        with open(os.path.join(root, lay.rel_data(f)), "w") as fh:
            fh.write("DATA:" + lay.ident(f))
    arg = lay.arg_for(1)
    obs = B.run_ucg(ucg, ["build", arg], lay.cwd(), os.path.join(root, "home"))
    o = observe(lay, obs, arg, B.snapshot(lay))
    v = case["expected"]
    why = agrees(v, o, 0 if v["okay"] else 1)
    print("observed:", json.dumps(o)[:1500])
    print("replay %s: %s" % (path, "agrees with the specification" if not why else "DISAGREES: " + "; ".join(why)))
    shutil.rmtree(base, ignore_errors=True)
    if why:
        print("VIOLATION property=%s replay=%s" % (PID, path))
    return 0 if not why else 1
