"""C18 - `env` exposes the process environment, nothing else, and cannot be shadowed."""
import json
import os
import random
import shutil
import subprocess
import time

from . import common as C
from . import coreprog as P
from . import render as R
from . import c01

PID = "C18"

BASE = {"Fam": "<- FamEnv", "LitPool": "<- Lits2", "Names": "<- Names2", "BinOps": "<- Ops2", "FldNames": "<- FldsEnv",
        "EnvVars": "<- Env2", "EnvNames": "<- EnvNames3", "TyNames": "<- TySome", "MaxN": "3", "MaxStk": "2",
        "MaxStmts": "2"}
ONE = dict(BASE, MaxN="3", MaxStmts="1")
TWO = dict(BASE, MaxN="2", MaxStmts="2", LitPool="<- Lits1", BinOps="<- Ops1")
QUICK = [("env-strict", dict(ONE, Strict="TRUE"), None), ("env-nostrict", dict(ONE, Strict="FALSE"), None),
         ("env2-strict", dict(TWO, Strict="TRUE"), None), ("env2-nostrict", dict(TWO, Strict="FALSE"), None)]
THOROUGH = [("env-strict", dict(ONE, Strict="TRUE", MaxN="4"), None),
            ("env-nostrict", dict(ONE, Strict="FALSE", MaxN="4"), None),
            ("env2-strict", dict(TWO, Strict="TRUE", LitPool="<- Lits2"), None),
            ("env2-nostrict", dict(TWO, Strict="FALSE", LitPool="<- Lits2"), None)]

ABS_ENV = {"AV": "v1", "B_2": ""}          # Env2 of MC_Gen.tla
SECRET = "s3cr3t-Zq9-do-not-print"
NAME_CHARS = "ABCDEFGHIJKLMNOPQRSTUVWXYZabcdefghijklmnopqrstuvwxyz0123456789_"


def work_strict(h, cases):
    return [replay_env(h, c, True) for c in cases]


def work_nostrict(h, cases):
    return [replay_env(h, c, False) for c in cases]


def replay_env(h, case, strict):
    """library leg: the specification's environment, FileBuilder::eval_string"""
    prog = case["prog"]
    try:
        text = R.program(prog)
    except R.Unrenderable as e:
        return {"status": "skip", "why": str(e)}
    env = [{"nm": k, "sval": v} for k, v in ABS_ENV.items()] + [{"nm": "OTHER", "sval": SECRET}]
    r = h.req({"op": "eval", "src": text, "strict": strict, "env": env})
    obs = P.observed_outcome(r)
    if obs[0] == "crash":
        return {"status": "violation", "key": "crash", "text": text, "kind": "crash", "detail": {"observed": obs}}
    exp = case["expect"]
    a = P.agrees(exp, obs)
    if a is None:
        return {"status": "skip", "why": "no prediction", "text": text}
    if not a:
        devs = case.get("devs") or []
        if devs and P.agrees(case["code"], obs):
            return {"status": "known", "key": "dev", "text": text, "detail": {}}
        return {"status": "violation", "key": "value", "text": text, "kind": "value",
                "detail": {"strict": strict, "observed": P._show(obs), "expected": P._show_spec(exp)}}
    if obs[0] == "fail" and SECRET in obs[1]:
        return {"status": "violation", "key": "diagnostic-discloses-environment", "text": text, "kind": "secret",
                "detail": {"strict": strict, "message": obs[1][:300]}}
    if obs[0] == "fail" and strict and "UNSET" in text and "UNSET" not in obs[1] and _only_unset_fails(prog):
        return {"status": "violation", "key": "diagnostic-does-not-name-variable", "text": text, "kind": "name",
                "detail": {"message": obs[1][:300]}}
    return {"status": "ok", "text": text}


def _only_unset_fails(prog):
    """the program is a single read of the unset variable (then the diagnostic must name it)"""
    if len(prog) != 1 or (prog[0]["s"] == "let" and R.nm(prog[0]["nm"]) == "env"):
        return False
    x = prog[0]["x"]
    return x.get("e") == "bin" and x.get("op") == "dot" and x["l"].get("e") == "sym" and R.nm(x["l"]["nm"]) == "env" \
        and x["r"].get("e") == "sym" and R.nm(x["r"]["nm"]) == "UNSET"


# ---------------------------------------------------------------------------
# binary leg: `env -i NAME=value ... ucg [--no-strict] build`
# ---------------------------------------------------------------------------

def rand_name(rng):
    n = rng.choice(NAME_CHARS[:52] + "_")
    for _ in range(rng.randint(0, 12)):
        n += rng.choice(NAME_CHARS)
    return n


def rand_value(rng):
    pools = ["", "plain", "with space", "quote\"s'", "$HOME `id` \\", "new\nline", "tab\there", "ünï©ødé ✓ 𝄞",
             "=", "a=b=c", "{}[]", "  "]
    if rng.random() < 0.5:
        return rng.choice(pools)
    return "".join(chr(rng.choice([rng.randint(1, 127), rng.randint(0xA0, 0x2FF), rng.randint(0x4E00, 0x4E40),
                                   rng.randint(0x1F600, 0x1F610)])) for _ in range(rng.randint(0, 30)))


def binary_leg(ucg, rng, n, rep, stats):
    d = C.scratch_dir("c18")
    home = os.path.join(d, "home")
    os.makedirs(home)
    try:
        for i in range(n):
            nvars = rng.randint(0, 20)
            env = {}
            while len(env) < nvars:
                env[rand_name(rng)] = rand_value(rng).replace("\x00", "")
            secret_name = "SECRET_" + rand_name(rng)
            env[secret_name] = SECRET
            names = [k for k in env if k != secret_name]
            use_set = bool(names) and rng.random() < 0.6
            strict = rng.random() < 0.6
            if use_set:
                target = rng.choice(names)
            else:
                target = rand_name(rng)
                while target in env:
                    target = rand_name(rng)
            src = os.path.join(d, "p%d.ucg" % i)
            with open(src, "w") as f:
                import re as _re
                # a name that is not a ucg symbol (leading `_` or digit) is selected in quoted form
                sel = target if _re.fullmatch(r"[A-Za-z][A-Za-z0-9_-]*", target) and rng.random() < 0.8 \
                    else '"%s"' % target
                # other reads of set variables in the same file must not disturb this one
                for k, other in enumerate(rng.sample(names, min(len(names), rng.randint(0, 2)))):
                    osel = other if _re.fullmatch(r"[A-Za-z][A-Za-z0-9_-]*", other) else '"%s"' % other
                    f.write("let pre%d = env.%s;\n" % (k, osel))
                f.write("out json {v = env.%s};\n" % sel)
            full = dict(env)
            full["HOME"] = home
            cmd = [ucg] + ([] if strict else ["--no-strict"]) + ["build", src]
            try:
                p = subprocess.run(cmd, env=full, cwd=d, capture_output=True, timeout=30)
            except subprocess.TimeoutExpired:
                rep.disagree({"leg": "binary", "cmd": cmd, "what": "timeout"}, key="crash")
                continue
            stats["binary_runs"] = stats.get("binary_runs", 0) + 1
            art = os.path.join(d, "p%d.json" % i)
            err = p.stderr.decode("utf-8", "replace")
            case = {"leg": "binary", "target": target, "set": use_set, "strict": strict, "env": env,
                    "exit": p.returncode, "stderr": err[:400]}
            if p.returncode not in (0, 1):
                rep.disagree(case, key="crash")
                continue
            # whatever the outcome and the mode: nothing the process prints may contain the value of a variable the
            # program did not read (warnings of the non-strict mode included)
            if SECRET in err or SECRET in p.stdout.decode("utf-8", "replace"):
                rep.disagree(case, key="output-discloses-environment")
                continue
            if use_set:
                ok = p.returncode == 0 and os.path.exists(art)
                if ok:
                    try:
                        ok = json.load(open(art, encoding="utf-8")) == {"v": env[target]}
                    except Exception:
                        ok = False
                if not ok:
                    rep.disagree(case, key="value")
            elif strict:
                if p.returncode != 1 or not err.strip():
                    rep.disagree(case, key="unset-strict-not-an-error")
                elif target not in err:
                    rep.disagree(case, key="diagnostic-does-not-name-variable")
                elif SECRET in err or SECRET in p.stdout.decode("utf-8", "replace"):
                    rep.disagree(case, key="diagnostic-discloses-environment")
            else:
                ok = p.returncode == 0 and os.path.exists(art)
                if ok:
                    try:
                        ok = json.load(open(art, encoding="utf-8")) == {"v": None}
                    except Exception:
                        ok = False
                if not ok:
                    rep.disagree(case, key="unset-nostrict-not-null")
            if os.path.exists(art):
                os.unlink(art)
            os.unlink(src)
            # "the process environment, nothing else": every fifth environment is also written out whole and must be
            # exactly the environment the process was given - no variable missing, none invented, every value verbatim
            if i % 5 == 0:
                src2 = os.path.join(d, "all%d.ucg" % i)
                with open(src2, "w") as f:
                    f.write("out json {all = env};\n")
                p2 = subprocess.run([ucg, "build", src2], env=full, cwd=d, capture_output=True, timeout=30)
                art2 = os.path.join(d, "all%d.json" % i)
                stats["whole_environment_runs"] = stats.get("whole_environment_runs", 0) + 1
                got = None
                if p2.returncode == 0 and os.path.exists(art2):
                    try:
                        got = json.load(open(art2, encoding="utf-8")).get("all")
                    except Exception:
                        got = None
                if got != full:
                    rep.disagree({"leg": "binary", "what": "`out json {all = env}` is not the process environment",
                                  "env": full, "observed": got, "exit": p2.returncode,
                                  "stderr": p2.stderr.decode("utf-8", "replace")[:300]}, key="whole-environment-differs")
                for x in (src2, art2):
                    if os.path.exists(x):
                        os.unlink(x)
    finally:
        shutil.rmtree(d, ignore_errors=True)


RULE = ("programs = behaviours of Gen.tla over the constructs C18 names (env.NAME for two set names and one unset name, a "
        "tuple field and a selector named env, let env = ..., strict and non-strict machines); checked in the model: "
        "Agreement of VM.tla with Eval.tla under both Strict values; replayed through FileBuilder::eval_string with the "
        "specification's environment plus a planted secret (value / failure / NULL as predicted, no diagnostic contains the "
        "secret, the diagnostic of a lone unset read names the variable) and, for seeded random environments of 0..20 "
        "variables with arbitrary Unicode values, through `ucg [--no-strict] build` under exactly that environment "
        "(artifact of `out json {v = env.NAME}`); non-trivial = distinct program compiling to >= 6 ops")


def main(tier, replay=None):
    t0 = time.time()
    if replay:
        return c01.do_replay(PID, replay, work_strict, worker_for={"env-nostrict": work_nostrict, "env2-nostrict": work_nostrict})
    fams = QUICK if tier == "quick" else THOROUGH
    extra = {}

    def after(rep, stats):
        ucg = C.ensure_ucg()
        binary_leg(ucg, random.Random(C.seed()), 120 if tier == "quick" else 1500, rep, stats)

    return c01.run(PID, tier, fams, t0, rule=RULE, worker_for={"env-strict": work_strict, "env-nostrict": work_nostrict, "env2-strict": work_strict,
                               "env2-nostrict": work_nostrict},
                   after=after)
