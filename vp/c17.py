"""C17 - syntax and evaluation errors point at the statement that causes them."""
import os
import random
import re
import time

from . import common as C
from . import coreprog as P
from . import render as R
from . import c01

PID = "C17"


def q(name, **over):
    for f in c01.QUICK:
        if f[0] == name:
            d = dict(f[1])
            d.update(over)
            d["Ill0"] = "1"
            return d
    raise KeyError(name)


QUICK = [
    ("ops2", q("ops2"), None), ("data", q("data"), None), ("select", q("select"), None), ("call", q("call"), None),
    ("foppre", q("foppre"), None), ("misc", q("misc"), None), ("cast", q("cast"), None), ("dotuse", q("dotuse"), None),
    ("moddef", q("moddef"), None), ("conlet", q("conlet"), None), ("funcbody", q("funcbody"), None), ("moduse", q("moduse"), None), ("fopbad", q("fopbad"), None),
    ("sim", q("sim", MaxStmts="5"), (3000, 80)),
]
THOROUGH = QUICK[:-1] + [("sim", q("sim", MaxStmts="8"), (80000, 120))]

POS_RE = re.compile(r"line: (\d+) column: (\d+)")


def spread(text, rng):
    """Lay one statement over several lines: break after some commas and `=>` outside string literals."""
    out = []
    ins = False
    esc = False
    i = 0
    while i < len(text):
        c = text[i]
        out.append(c)
        if ins:
            if esc:
                esc = False
            elif c == "\\":
                esc = True
            elif c == '"':
                ins = False
        else:
            if c == '"':
                ins = True
            elif c == "," and text[i + 1:i + 2] == " " and rng.random() < 0.7:
                out.append("\n   ")
            elif c == ">" and text[i - 1:i] == "=" and text[i + 1:i + 2] == " " and rng.random() < 0.5:
                out.append("\n   ")
            elif c == "(" and rng.random() < 0.15:
                out.append("\n    ")
        i += 1
    return "".join(out)


def layout(prog, rng, extra_before=0, extra_at=None):
    """-> (text, spans) with spans[j] = (first_line, last_line) of statement j (1-based like Gen's p).
    extra_before unrelated statements are inserted before statement `extra_at`."""
    lines = []
    spans = {}
    for j, st in enumerate(prog, start=1):
        if extra_at == j:
            for k in range(extra_before):
                lines.append("let zz%d = %d;" % (k, k))
        t = spread(R.stmt(st), rng)
        first = len(lines) + 1
        lines.extend(t.split("\n"))
        spans[j] = (first, len(lines))
    return "\n".join(lines) + "\n", spans


def first_failing(case):
    pre = case.get("prefix") or []
    for k, o in enumerate(pre, start=1):
        if o["k"] == "fail":
            return k
    return len(case["prog"])


def positions(msg):
    """primary position and VIA positions of a diagnostic"""
    head, _, rest = msg.partition("\nVIA:")
    m = POS_RE.findall(head)
    prim = (int(m[-1][0]), int(m[-1][1])) if m else None
    via = [(int(a), int(b)) for a, b in POS_RE.findall(rest)] if rest else []
    return prim, via


def inside(pos, span):
    return pos is not None and span[0] <= pos[0] <= span[1]


def work(h, cases):
    out = []
    for c in cases:
        out.append(one(h, c))
    return out


def one(h, case):
    if case["expect"]["k"] != "fail":
        return {"status": "skip", "why": "no fault"}
    if case.get("devs"):
        return {"status": "skip", "why": "program touches a recorded deviation"}
    prog = case["prog"]
    fault = case.get("fault")
    at = first_failing(case)
    if not fault:
        # no planted fault, yet the program fails (a division by zero, a callback meeting the one item of its
        # target it cannot handle, ...): the statement containing the fault is where the machine of VM.tla
        # stops (blame[0], a statement number); the calling statement is the top-level statement that was running
        bl = [b for b in (case.get("blame") or []) if isinstance(b, int)]
        if not bl or not (1 <= bl[0] <= len(prog)):
            return {"status": "skip", "why": "no planted fault and no modelled position"}
        fault = bl[0]
    sd = hash(repr(prog)) & 0xFFFFFFF
    rng = random.Random(sd)
    try:
        text, spans = layout(prog, rng)
        k = rng.randint(1, 3)
        text2, spans2 = layout(prog, random.Random(sd), extra_before=k, extra_at=fault)
    except R.Unrenderable as e:
        return {"status": "skip", "why": str(e)}
    r1, r2 = h.batch([{"op": "eval", "src": text, "strict": True}, {"op": "eval", "src": text2, "strict": True}])
    o1 = P.observed_outcome(r1)
    o2 = P.observed_outcome(r2)
    if o1[0] == "crash" or o2[0] == "crash":
        return {"status": "violation", "key": "crash", "text": text, "kind": "crash", "detail": {"observed": o1}}
    if o1[0] != "fail":
        return {"status": "skip", "why": "does not fail (C01 decides)", "text": text}
    prim, via = positions(o1[1])
    det = {"fault_stmt": fault, "failing_stmt": at, "spans": {str(k): v for k, v in spans.items()},
           "message": o1[1][:500]}
    in_tpl = "@{" in R.stmt(prog[fault - 1])
    # A fault planted in a CALL (wrong argument type, arity) surfaces inside the callee: then the statement of
    # the call is the calling statement and must be listed under VIA - either way the faulty statement is named.
    listed = any(inside(v, spans[fault]) for v in via)
    if not inside(prim, spans[fault]) and not listed:
        key = "primary-outside-faulty-statement"
        if in_tpl and prim is not None and prim[0] == 1:
            key = "position-inside-format-template-is-relative-to-the-template"
        return {"status": "violation", "key": key, "text": text, "kind": "primary", "detail": det}
    if inside(prim, spans[fault]) and at != fault and not any(inside(v, spans[at]) for v in via):
        return {"status": "violation", "key": "calling-statement-not-listed", "text": text, "kind": "via", "detail": det}
    # the position moves by exactly the number of lines inserted before the faulty statement
    if o2[0] == "fail":
        prim2, _ = positions(o2[1])
        moved = k if prim[0] >= spans[fault][0] else 0     # only what lies after the insertion point moves
        if prim2 is None or prim2[0] != prim[0] + moved or prim2[1] != prim[1]:
            det["shift"] = {"inserted": k, "before": prim, "after": prim2}
            key = "position-moves-with-unrelated-statements"
            if in_tpl and prim2 == prim:
                key = "position-inside-format-template-is-relative-to-the-template"
            return {"status": "violation", "key": key, "text": text2,
                    "kind": "shift", "detail": det}
    # the same text built as a file: the type checker runs first and its diagnostic must name the faulty
    # statement as well (a diagnostic raised at a function definition has no call to list - DESIGN §5/C17)
    global _DIR, _N
    if _DIR is None:
        _DIR = C.scratch_dir("c17")
    _N += 1
    path = os.path.join(_DIR, "f%d_%d.ucg" % (os.getpid(), _N))
    with open(path, "w") as f:
        f.write(text)
    rb = h.req({"op": "build", "path": path, "strict": True, "fresh": False})
    os.unlink(path)
    ob = P.observed_outcome(rb)
    if ob[0] == "crash":
        return {"status": "violation", "key": "crash", "text": text, "kind": "crash", "detail": {"observed": ob}}
    if ob[0] == "fail":
        primb, viab = positions(ob[1])
        if not inside(primb, spans[fault]) and not any(inside(v, spans[fault]) for v in viab):
            det["build_message"] = ob[1][:500]
            key = "build:primary-outside-faulty-statement"
            if "Type error" in ob[1]:
                key = "checker:diagnostic-at-the-definition-of-an-operand"
            if in_tpl and primb is not None and primb[0] == 1:
                key = "position-inside-format-template-is-relative-to-the-template"
            return {"status": "violation", "key": key, "text": text, "kind": "build-primary", "detail": det}
    return {"status": "ok", "text": text}


_DIR = None
_N = 0


# ---------------------------------------------------------------------------
# syntax faults: Mutate.tla scripts confined to one statement
# ---------------------------------------------------------------------------
VOCAB = [";", "=", "(", "}", "let", '"x"']


def tok_text(t):
    if t["ty"] == "QUOTED":
        return R.str_lit(list(t["fr"]))
    return t["fr"]


def syntax_work(h, items):
    out = []
    for prog, j, script, sd in items:
        rng = random.Random(sd)
        try:
            stmts = [R.stmt(s) for s in prog]
        except R.Unrenderable:
            out.append({"status": "skip"})
            continue
        r = h.req({"op": "tokens", "src": stmts[j]})
        if not r.get("ok"):
            out.append({"status": "skip"})
            continue
        toks = [t for t in r["toks"] if t["ty"] != "END"]
        if len(toks) != script["n"]:
            out.append({"status": "skip"})
            continue
        new = [tok_text(toks[x - 1]) if x > 0 else VOCAB[-x - 1] for x in script["seq"]]
        lines = []
        spans = {}
        for k, t in enumerate(stmts):
            first = len(lines) + 1
            if k == j:
                # a few tokens per line
                cur = []
                for w in new:
                    cur.append(w)
                    if rng.random() < 0.2:
                        lines.append(" ".join(cur))
                        cur = []
                if cur or not new:
                    lines.append(" ".join(cur))
            else:
                lines.append(t)
            spans[k] = (first, len(lines))
        text = "\n".join(lines) + "\n"
        pr = h.req({"op": "parse", "src": text})
        if "crash" in pr:
            out.append({"status": "violation", "key": "crash", "text": text, "kind": "crash", "detail": pr})
            continue
        if pr.get("ok"):
            out.append({"status": "skip", "why": "still parses"})
            continue
        e = pr["err"]
        ln, col = e.get("ln"), e.get("col")
        nxt = spans.get(j + 1)
        ok = ln is not None and (spans[j][0] <= ln <= spans[j][1]
                                 or (nxt is not None and ln == nxt[0])        # a missing closer shows at the next token
                                 or (nxt is None and ln == spans[j][1] + 1))   # ... or at the end of input
        if ok:
            out.append({"status": "ok", "text": text})
        else:
            out.append({"status": "violation", "key": "syntax-error-outside-mutated-statement", "text": text,
                        "kind": "syntax", "detail": {"stmt": j + 1, "spans": {str(a + 1): b for a, b in spans.items()},
                                                     "line": ln, "col": col, "msg": e.get("msg", "")[:300],
                                                     "mutation": script["log"]}})
    return out


def syntax_leg(tier, rep, stats, okprogs):
    hp = C.ensure_harness()
    scripts = {}
    r1 = C.run_tlc("Mutate", "Mutate_mc", workers=4, timeout=300)
    C.require_tlc_ok(r1, "Mutate_mc")
    r2 = C.run_tlc("Mutate", "Mutate_sim", workers=1, simulate=10 ** 6, depth=3, timeout=120,
                   max_replays=20000 if tier == "quick" else 200000)
    C.require_tlc_ok(r2, "Mutate_sim")
    for o in r1.replays + r2.replays:
        scripts.setdefault(o["n"], []).append(o)
    stats["mutation_scripts"] = sum(len(v) for v in scripts.values())
    stats["mutate_states"] = (r1.distinct or r1.generated) + r2.generated
    rng = random.Random(C.seed())
    items = []
    want = 4000 if tier == "quick" else 60000
    # token counts are only known after tokenising: offer every script length and let the worker skip mismatches
    h = C.Harness(hp)
    try:
        for prog in okprogs:
            try:
                stmts = [R.stmt(s) for s in prog]
            except R.Unrenderable:
                continue
            for j, t in enumerate(stmts):
                r = h.req({"op": "tokens", "src": t})
                if not r.get("ok"):
                    continue
                n = len(r["toks"]) - 1
                if n in scripts:
                    for _ in range(3):
                        items.append((prog, j, rng.choice(scripts[n]), rng.randint(0, 1 << 30)))
            if len(items) >= want:
                break
    finally:
        h.close()
    res = C.proc_map(hp, syntax_work, items, chunk=200)
    n_ok = 0
    for it, x in zip(items, res):
        if x["status"] == "violation":
            rep.disagree({"leg": "syntax", "text": x.get("text"), "detail": x.get("detail")}, key=x.get("key"))
        elif x["status"] == "ok":
            n_ok += 1
    stats["syntax_faults_checked"] = n_ok
    stats["syntax_mutations_tried"] = len(items)


RULE = ("programs = behaviours of Gen.tla with exactly one planted fault (Ill0 = 1: an ill-typed join, unknown or leaked "
        "name, missing field/index, unhandled select, failed cast, fail expression, bad arity) whose statement Gen records; "
        "the failing statement is the first prefix the reference fails on. Replayed: each statement is laid out over "
        "several lines, FileBuilder::eval_string's diagnostic is parsed; the primary line must lie in the span of the "
        "faulty statement, a fault inside a function/module body run from a later statement must list that statement "
        "under VIA, and inserting 1..3 unrelated statements before the faulty one must move the primary line by exactly "
        "that many lines and leave the column. Syntax faults: Mutate.tla scripts (delete / duplicate / swap / replace "
        "a token; all single mutations for 3..10 tokens, simulated scripts of <= 3 mutations beyond) applied to ONE "
        "statement of successfully evaluating programs; when the text no longer parses the reported line must lie in "
        "that statement (or at the first token after it, where a missing closer becomes observable); "
        "non-trivial = distinct program compiling to >= 6 ops")


def syntax_replay(h, case):
    """a recorded syntax disagreement: the text is parsed again, the reported line judged against the recorded spans"""
    det = case.get("detail") or {}
    pr = h.req({"op": "parse", "src": case["text"]})
    if pr.get("ok"):
        return {"status": "skip", "why": "the text parses"}
    ln = pr["err"].get("ln")
    spans = {int(k): v for k, v in (det.get("spans") or {}).items()}
    j = det.get("stmt")
    if j not in spans:
        return {"status": "skip", "why": "no spans recorded"}
    nxt = spans.get(j + 1)
    ok = ln is not None and (spans[j][0] <= ln <= spans[j][1] or (nxt is not None and ln == nxt[0])
                             or (nxt is None and ln == spans[j][1] + 1))
    return {"status": "ok"} if ok else {"status": "violation", "key": "syntax-error-outside-mutated-statement",
                                        "text": case["text"], "detail": {"line": ln, "stmt": j, "spans": spans}}


def main(tier, replay=None):
    t0 = time.time()
    if replay:
        return c01.do_replay(PID, replay, work, text_replay=syntax_replay)
    fams = QUICK if tier == "quick" else THOROUGH
    return c01.run(PID, tier, fams, t0, worker=work, rule=RULE,
                   after=lambda rep, stats, okprogs: syntax_leg(tier, rep, stats, okprogs))
