"""C12 helpers: refinement of Xml.tla's string classes to concrete members, the
independent XML parser (expat raw + ElementTree namespace-aware), projection of the
parsed bytes to the infoset shape of Xml.tla, comparison with the predicted infoset,
cfg generation for TLC.

Nothing here knows what the converter should do: predictions come from TLC."""
import json
import os
import random
import re
import xml.etree.ElementTree as ET
import xml.parsers.expat as expat
import zlib

from . import common as C

# ---------------------------------------------------------------------------
# refinement tables (DESIGN 3.6): class -> concrete members.  Soundness: Xml.tla
# uses of a string only (i) its class, (ii) for prefixes and URIs equality of
# classes (refined per document, distinct classes to distinct members), (iii) the
# properties the classes stand for, checked by check_tables():
#   empty = ""; ws = XML white space only; markup = contains < > & ' " or ]]>;
#   pad = leading or trailing white space around other text; uni = some non-ASCII
#   character; cr = contains CR; tab = contains TAB; ctrl = contains a character
#   outside the XML 1.0 Char production; every class but cr / tab / ctrl is free of
#   CR, TAB and non-Char characters; every class but uni / eu is ASCII.
# ---------------------------------------------------------------------------
XML_WS = " \t\n\r"


def is_xml_char(ch):
    o = ord(ch)
    return (o in (0x9, 0xA, 0xD) or 0x20 <= o <= 0xD7FF or 0xE000 <= o <= 0xFFFD or 0x10000 <= o <= 0x10FFFF)


def _uni_pool():
    r = random.Random(20260926)
    ranges = [(0xA1, 0xFF), (0x100, 0x17F), (0x370, 0x3FF), (0x400, 0x4FF), (0x5D0, 0x5EA), (0x600, 0x6FF),
              (0x900, 0x97F), (0x3040, 0x30FF), (0x4E00, 0x9FFF), (0xAC00, 0xD7A3), (0x300, 0x36F),
              (0x2000, 0x200A), (0x2010, 0x2027), (0x2030, 0x206F), (0x2190, 0x21FF), (0xE000, 0xE0FF),
              (0xFF00, 0xFFEF), (0x1F300, 0x1F6FF), (0x1D100, 0x1D1FF), (0x20000, 0x2A6DF), (0x10FFF0, 0x10FFFD)]
    fixed = ["\u00e9", "\u65e5\u672c\u8a9e", "\U0001F600", "\u043a\u043b\u044e\u0447", "e\u0301", "\U0010fffd",
             "\ud7ff", "\ue000", "\ufffd", "\u00df\u2192\u2211", "\u00a0", "\u2003x", "\u05d0\u05d1<\u05d2",
             "\u00e9&\u00e8", "\"\u00fc\"", "\u00e9\n\u00e8", " \u3000 ", "\u00e9]]>", "a\u00adb", "\u200b", "\ufeffx",
             "\u0131\u0130", "\U0001F468\u200d\U0001F469\u200d\U0001F467"]
    out = list(fixed)
    ascii_bits = ["a", "Z", "0", " ", "<", ">", "&", "'", "\"", "]]>", "\n", ";", "#", "="]
    while len(out) < 400:
        n = r.randrange(1, 9)
        s = []
        for _ in range(n):
            if r.random() < 0.3:
                s.append(r.choice(ascii_bits))
            else:
                lo, hi = r.choice(ranges)
                s.append(chr(r.randrange(lo, hi + 1)))
        s = "".join(s)
        if any(ord(c) > 127 for c in s):
            out.append(s)
    return out


def _markup_pool():
    r = random.Random(4242)
    toks = ["<", ">", "&", "'", "\"", "]]>", "<![CDATA[", "&amp;", "&lt;", "&#38;", "&#x26;", "<!--", "-->", "<?",
            "?>", "</", "/>", "<a>", "&&", "<<", "]]", "&quot;", "&apos;", "&gt;", "&nbsp;", "%", "&#0;", "<a b='c'>"]
    out = ["a<b", "x>y", "AT&T", "&amp;", "&lt;tag&gt;", "<![CDATA[x]]>", "]]>", "'single'", "\"double\"",
           "<!-- c -->", "<?pi x?>", "</a>", "<a/>", "a]]>b", "1 < 2 && 3 > 2", "\"'<>&", "&", "<", ">", "'", "\"",
           "&#60;", "&unknown;", "]]>]]>", "<a x=\"1\">t</a>", "if (a<b && c>d) { s = \"q\"; }"]
    filler = ["a", "b c", "x", " ", "1", "text", "\n"]
    while len(out) < 200:
        n = r.randrange(1, 6)
        s = "".join(r.choice(toks) if r.random() < 0.6 else r.choice(filler) for _ in range(n))
        if re.search(r"[<>&'\"]", s):
            out.append(s)
    return out


POOL = {
    # text and attribute values
    "plain": ["a", "hello", "Lorem ipsum", "42", "a.b-c_d", "x", "Hello, World!", "value1", "inner text node",
              "semi;colon", "a=b", "100%", "(paren)", "#hash", "a/b", "c:\\dir", "[x]", "{y}", "a|b", "~`^$@*+"],
    "markup": _markup_pool(),
    "empty": [""],
    "ws": [" ", "  ", "\n", " \n ", "\n\n", "   \n  ", "\n    "],
    "pad": [" x", "x ", " x ", "\nx\n", "  two  words  ", "\n  indented\n", " a\n b ", "tail\n", "\nlead", "  <b>  "],
    "uni": _uni_pool(),
    "cr": ["a\rb", "a\r\nb", "\r", "\r\n", "x\r", "\rx", "line1\r\nline2\r\n", " \r ", "a\r\rb", "<\r>"],
    "tab": ["a\tb", "\t", "\tx", "x\t", "a\t\tb", " \t ", "col1\tcol2\tcol3", "\t<"],
    "ctrl": ["\x01", "a\x08b", "\x0b", "\x0c", "x\x1f", "\x00", "a\x00b", "\ufffe", "\uffff", "\x1b[0m", "\x02\x03"],
    # element names
    "e1": ["a", "item", "Node", "x1", "_u", "a-b", "a.b", "A_1", "root", "html", "top", "child1"],
    "e2": ["b", "entry", "row", "y2", "Li", "grandchild", "v.2-x", "__"],
    "eu": ["\u00e9l\u00e9ment", "\u540d\u524d", "\u03a9mega", "\u00f1", "a\u00b7b", "_\u00fc", "\u0434\u043e\u043a",
           "t\u00edtulo-1"],
    # attribute names (pairwise disjoint pools)
    "@a1": ["id", "class", "data-x", "_a", "x.y", "lang", "attr1", "A"],
    "@a2": ["name", "href", "k2", "b_", "attr2", "Z-9", "v"],
    "@pa": ["attr", "ref", "t", "kind"],
    # prefixes and namespace URIs: one member per document and class
    "p": ["p", "ns1", "my-ns", "px", "myns", "P_1"],
    "q": ["q", "ns2", "o", "qx", "other.ns"],
    "u1": ["http://example.com/ns1", "urn:a", "http://example.org/", "http://www.w3.org/1999/xhtml", "x"],
    "u2": ["http://example.org/two", "urn:b", "tag:x,2026:y", "http://example.com/ns1/", "HTTP://EXAMPLE.COM/NS1"],
    "uamp": ["http://e.org/?a=1&b=2", "urn:x<y", "urn:\"q\"", "http://e.org/?q=\"x\"&r=<y>", "a & b"],
    # declaration
    "v10": ["1.0"],
    "v11": ["1.1"],
    "v20": ["2.0", "1", "1.2", "", "one", "1.0 ", "10"],
    "utf8": ["UTF-8", "utf-8"],
    "latin1": ["ISO-8859-1"],
    "utf16": ["UTF-16"],
}
TEXT_CLASSES = ["plain", "markup", "empty", "ws", "pad", "uni", "cr", "tab", "ctrl"]
PER_DOC = {"p", "q", "u1", "u2", "uamp"}
NAME_PREFIX = {"pe1": ("p", "e1"), "qe1": ("q", "e1"), "@pa": ("p", "@pa")}
_NAME_RE = re.compile(r"^[A-Za-z_\u00c0-\u00d6\u00d8-\u00f6\u00f8-\u02ff\u0370-\u037d\u037f-\u1fff\u200c-\u200d"
                      r"\u2070-\u218f\u2c00-\u2fef\u3001-\ud7ff\uf900-\ufdcf\ufdf0-\ufffd\U00010000-\U000effff]"
                      r"[-.0-9A-Za-z_\u00b7\u00c0-\u00d6\u00d8-\u00f6\u00f8-\u037d\u037f-\u1fff\u200c-\u200d"
                      r"\u203f-\u2040\u2070-\u218f\u2c00-\u2fef\u3001-\ud7ff\uf900-\ufdcf\ufdf0-\ufffd"
                      r"\u0300-\u036f\U00010000-\U000effff]*$")


def check_tables():
    for c in TEXT_CLASSES:
        for s in POOL[c]:
            if c not in ("cr", "tab", "ctrl"):
                assert "\r" not in s and "\t" not in s and all(is_xml_char(ch) for ch in s), (c, s)
            if c != "uni":
                assert all(ord(ch) < 128 or c == "ctrl" for ch in s), (c, s)
    assert POOL["empty"] == [""]
    assert all(s and all(ch in " \n" for ch in s) for s in POOL["ws"])
    assert all(re.search(r"[<>&'\"]", s) for s in POOL["markup"])
    assert all(s != s.strip(XML_WS) and s.strip(XML_WS) for s in POOL["pad"])
    assert all(any(ord(ch) > 127 for ch in s) for s in POOL["uni"])
    assert all("\r" in s and "\t" not in s and all(is_xml_char(ch) for ch in s) for s in POOL["cr"])
    assert all("\t" in s and "\r" not in s and all(is_xml_char(ch) for ch in s) for s in POOL["tab"])
    assert all(any(not is_xml_char(ch) for ch in s) and "\r" not in s and "\t" not in s for s in POOL["ctrl"])
    for c in ("e1", "e2", "eu", "@a1", "@a2", "@pa", "p", "q"):
        for s in POOL[c]:
            assert _NAME_RE.match(s) and ":" not in s and not s.lower().startswith("xml"), (c, s)
            assert (c == "eu") == any(ord(ch) > 127 for ch in s), (c, s)
    assert not set(POOL["@a1"]) & set(POOL["@a2"])
    assert not set(POOL["p"]) & set(POOL["q"])
    assert not set(POOL["u1"]) & set(POOL["u2"]) and not (set(POOL["u1"]) | set(POOL["u2"])) & set(POOL["uamp"])
    for u in POOL["u1"] + POOL["u2"]:
        assert u and not re.search(r"[<>&'\"\s]", u) and all(ord(ch) < 128 for ch in u)
    for u in POOL["uamp"]:   # written raw, each of these breaks well-formedness
        assert re.search(r"<|\"|&(?![a-z]+;|#)", u)
    for v in POOL["v20"]:
        assert v not in ("1.0", "1.1")


def case_id(obj):
    return zlib.crc32(json.dumps(obj, sort_keys=True).encode())


class Refiner:
    """(class, path) -> concrete member, per document (case id) and seed.  Prefix and
    URI classes are refined once per document."""

    def __init__(self, seed, cid):
        self.seed = seed
        self.cid = cid

    def _pick(self, cls, path):
        ms = POOL[cls]
        if len(ms) == 1:
            return ms[0]
        tag = "" if cls in PER_DOC else ",".join(map(str, path))
        r = random.Random("%d:%d:%s:%s" % (self.seed, self.cid, cls, tag))
        return ms[r.randrange(len(ms))]

    def s(self, cls, path):
        if cls in NAME_PREFIX:
            pf, local = NAME_PREFIX[cls]
            return self._pick(pf, ()) + ":" + self._pick(local, path)
        return self._pick(cls, path)

    def int_(self, path):
        r = random.Random("%d:%d:int:%s" % (self.seed, self.cid, path))
        return r.choice([0, 1, 7, -3, 42, 2 ** 40])


def refine_value(v, rf, path=()):
    """abstract document tuple (Xml.tla) -> harness Val json."""
    t = v["t"]
    if t == "null":
        return {"t": "null"}
    if t == "bool":
        return {"t": "bool", "b": v["b"]}
    if t == "int":
        return {"t": "int", "i": rf.int_(path)}
    if t == "str":
        return {"t": "str", "s": rf.s(v["sc"], path)}
    if t == "list":
        return {"t": "list", "es": [refine_value(e, rf, path + (j + 1,)) for j, e in enumerate(v["es"])]}
    if t == "tuple":
        out = []
        for j, f in enumerate(v["fs"]):
            nm = f["nm"]
            if nm.startswith("@"):
                nm = rf.s(nm, path + (j + 1,))
            out.append({"nm": nm, "val": refine_value(f["val"], rf, path + (j + 1,))})
        return {"t": "tuple", "fs": out}
    raise C.ToolError("unknown abstract value %r" % (v,))


def count_nodes(v):
    """element / text / other nodes of the abstract document (0 when there is no root)"""
    def node(n):
        if n["t"] == "tuple":
            k = 1
            for f in n["fs"]:
                if f["nm"] == "children" and f["val"]["t"] == "list":
                    k += sum(node(e) for e in f["val"]["es"])
            return k
        return 1
    if v["t"] != "tuple":
        return 0
    for f in v["fs"]:
        if f["nm"] == "root":
            return node(f["val"])
    return 0


def elem_depth(v):
    def node(n):
        if n["t"] == "tuple" and any(f["nm"] == "name" for f in n["fs"]) and not any(f["nm"] == "text" for f in n["fs"]):
            d = 0
            for f in n["fs"]:
                if f["nm"] == "children" and f["val"]["t"] == "list":
                    d = max([d] + [node(e) for e in f["val"]["es"]])
            return 1 + d
        return 0
    if v["t"] != "tuple":
        return 0
    for f in v["fs"]:
        if f["nm"] == "root":
            return node(f["val"])
    return 0


# ---------------------------------------------------------------------------
# the independent parser: expat without namespace processing gives the document as
# written (qualified names, xmlns attributes, character data); ElementTree
# (namespace-aware) decides namespace well-formedness and gives expanded names.
# ---------------------------------------------------------------------------

class NotWellFormed(Exception):
    pass


class PEl:
    __slots__ = ("name", "attrs", "decl", "kids", "scope", "tag")

    def __init__(self, name):
        self.name = name
        self.attrs = {}
        self.decl = {}
        self.kids = []      # str | PEl
        self.scope = {}
        self.tag = None


def parse_xml(data, force_encoding=None):
    """bytes -> (root PEl, declaration dict).  force_encoding: decode the bytes as
    that encoding whatever the declaration says."""
    p = expat.ParserCreate(force_encoding)
    p.buffer_text = True
    p.ordered_attributes = True
    stack = []
    roots = []
    decl = {}

    def start(name, attrs):
        el = PEl(name)
        parent_scope = stack[-1].scope if stack else {}
        for i in range(0, len(attrs), 2):
            k, v = attrs[i], attrs[i + 1]
            if k == "xmlns":
                el.decl[""] = v
            elif k.startswith("xmlns:"):
                el.decl[k[6:]] = v
            else:
                el.attrs[k] = v
        el.scope = dict(parent_scope)
        for k, v in el.decl.items():
            if k == "" and v == "":
                el.scope.pop("", None)
            else:
                el.scope[k] = v
        if stack:
            stack[-1].kids.append(el)
        else:
            roots.append(el)
        stack.append(el)

    def end(_name):
        stack.pop()

    def chars(s):
        if stack:
            ks = stack[-1].kids
            if ks and isinstance(ks[-1], str):
                ks[-1] += s
            else:
                ks.append(s)

    def xmldecl(version, encoding, standalone):
        decl.update({"version": version, "encoding": encoding, "standalone": standalone})

    p.StartElementHandler = start
    p.EndElementHandler = end
    p.CharacterDataHandler = chars
    p.XmlDeclHandler = xmldecl
    try:
        p.Parse(data, True)
    except expat.ExpatError as e:
        raise NotWellFormed(str(e))
    except (LookupError, ValueError, UnicodeError) as e:
        raise NotWellFormed("undecodable: %s" % e)
    if len(roots) != 1:
        raise NotWellFormed("%d root elements" % len(roots))
    # namespace-aware second reading
    try:
        parser = ET.XMLParser(encoding=force_encoding) if force_encoding else ET.XMLParser()
        parser.feed(data)
        eroot = parser.close()
    except ET.ParseError as e:
        raise NotWellFormed("namespace-aware parse: %s" % e)
    except (LookupError, ValueError, UnicodeError) as e:
        raise NotWellFormed("undecodable: %s" % e)

    def zip_tags(pel, eel):
        pel.tag = eel.tag
        pk = [k for k in pel.kids if not isinstance(k, str)]
        ek = list(eel)
        if len(pk) != len(ek):
            raise C.ToolError("expat and ElementTree disagree on the element structure")
        for a, b in zip(pk, ek):
            zip_tags(a, b)
    zip_tags(roots[0], eroot)
    return roots[0], decl


def alter(s, via):
    """what a conforming parser makes of a string written with the named omission"""
    if via == "exact":
        return s
    if via == "crnorm":      # end-of-line handling (XML 1.0, 2.11)
        return s.replace("\r\n", "\n").replace("\r", "\n")
    if via == "tabnorm":     # attribute-value normalisation (XML 1.0, 3.3.3)
        return s.replace("\t", " ")
    raise C.ToolError("unknown alteration %r" % via)


def is_ws(s):
    return all(ch in XML_WS for ch in s)


def expanded(qname, scope, is_attr):
    if ":" in qname:
        pf, local = qname.split(":", 1)
        return "{%s}%s" % (scope.get(pf, "?unbound"), local)
    if not is_attr and scope.get(""):
        return "{%s}%s" % (scope[""], qname)
    return qname


def el_mismatch(pe, xe, rf, where="/"):
    """predicted element (Xml.tla infoset json) vs parsed element -> None | reason"""
    name = rf.s(pe["nm"]["sc"], tuple(pe["nm"]["at"]))
    here = where + name
    if xe.name != name:
        return "%s: element name %r, expected %r" % (where, xe.name, name)
    want = {}
    for a in pe["attrs"]:
        k = rf.s(a["an"]["sc"], tuple(a["an"]["at"]))
        want[k] = alter(rf.s(a["av"]["sc"], tuple(a["av"]["at"])), a["av"]["via"])
    if want != xe.attrs:
        return "%s: attributes %r, expected %r" % (here, xe.attrs, want)
    scope = {}
    for key, pf in (("d", ""), ("p", None), ("q", None)):
        u = pe["ns"][key]
        if u != "none":
            scope[rf.s(key, ()) if pf is None else pf] = rf.s(u, ())
    if scope != xe.scope:
        return "%s: namespaces in scope %r, expected %r" % (here, xe.scope, scope)
    if xe.tag != expanded(name, scope, False):
        return "%s: expanded name %r, expected %r" % (here, xe.tag, expanded(name, scope, False))
    j = 0
    kids = xe.kids
    for pk in pe["kids"]:
        if pk["k"] == "text":
            # an alteration applies to the run as written (CR LF may straddle two described segments)
            text = "".join(rf.s(s["sc"], tuple(s["at"])) for s in pk["segs"])
            for via in sorted(set(s["via"] for s in pk["segs"])):
                text = alter(text, via)
            if j >= len(kids) or not isinstance(kids[j], str):
                return "%s: text %r missing (child %d)" % (here, text, j)
            if kids[j] != text:
                return "%s: text %r, expected %r" % (here, kids[j], text)
            j += 1
        else:
            if j < len(kids) and isinstance(kids[j], str):
                if not is_ws(kids[j]):
                    return "%s: text %r the document did not describe (child %d)" % (here, kids[j], j)
                j += 1
            if j >= len(kids):
                return "%s: child element %d missing" % (here, j)
            m = el_mismatch(pk, kids[j], rf, here + "/")
            if m:
                return m
            j += 1
    if j < len(kids) and isinstance(kids[j], str) and is_ws(kids[j]):
        j += 1
    if j < len(kids):
        extra = kids[j]
        return "%s: unexpected %s" % (here, ("text %r" % extra) if isinstance(extra, str) else ("element <%s>" % extra.name))
    return None


def tree_json(xe):
    return {"name": xe.name, "attrs": xe.attrs, "ns": xe.scope,
            "kids": [k if isinstance(k, str) else tree_json(k) for k in xe.kids]}


# ---------------------------------------------------------------------------
# cfg generation
# ---------------------------------------------------------------------------
ALL_FEATURES = (
    ["n:e1", "n:e2", "n:eu", "n:pe1", "n:qe1"]
    + ["ns:" + c for c in ("d1", "d2", "damp", "p1", "p2", "q1", "q2", "pamp")]
    + ["attrs:" + k for k in ("null", "empty", "two", "nullfirst", "nulllast", "allnull", "pfx", "int", "bool",
                              "listval", "tupleval", "str", "list", "intattrs")]
    + ["av:" + c for c in TEXT_CLASSES] + ["t:" + c for c in TEXT_CLASSES] + ["tf:bare", "tf:tt", "ord:rev"]
    + ["ch:" + f for f in ("null", "empty", "str", "tuple", "int")]
    + ["bad:" + k for k in ("int", "bool", "null", "list", "nameandtext", "textandname", "nameless", "namelessattrs",
                            "namelesskids", "nonstrname", "nullname", "nonstrtext")]
    + ["ver:v10", "ver:v11", "ver:v20", "ver:int", "enc:utf8", "enc:latin1", "enc:utf16", "enc:int", "sa:yes", "sa:no"]
    + ["doc:int", "doc:list", "doc:str", "doc:null", "doc:noroot", "doc:norootver",
       "root:str", "root:strempty", "root:tt", "root:null", "root:nameless", "root:int", "root:list"])
MALFORMED_FEATURES = [f for f in ALL_FEATURES
                      if f.startswith(("bad:", "doc:", "root:")) or f in (
                          "attrs:int", "attrs:bool", "attrs:listval", "attrs:tupleval", "attrs:str", "attrs:list",
                          "attrs:intattrs", "ch:str", "ch:tuple", "ch:int", "ver:v20", "ver:int", "enc:int")]


CFG_FEATURES = {}      # configuration name -> the features it enables


def write_cfg(gd, name, depth, kids, nodes, rare, core, rare_pool, invariants, deviations=()):
    CFG_FEATURES[name] = sorted(set(core) | (set(rare_pool) if rare > 0 else set()))
    q = lambda xs: "{" + ", ".join('"%s"' % x for x in xs) + "}"
    for f in list(core) + list(rare_pool):
        if f not in ALL_FEATURES:
            raise C.ToolError("unknown generator feature %r" % f)
    with open(os.path.join(gd, name + ".cfg"), "w") as f:
        f.write("CONSTANTS\n  MaxDepth = %d\n  MaxKids = %d\n  MaxNodes = %d\n  MaxRare = %d\n"
                "  CoreFeat = %s\n  RareFeat = %s\n  Deviations = %s\n"
                "INIT Init\nNEXT Next\nCHECK_DEADLOCK FALSE\nINVARIANTS %s\n"
                % (depth, kids, nodes, rare, q(core), q(rare_pool), q(deviations), " ".join(invariants)))
    return name
