"""Shared by C09/C13/C14/C16: refinement of the abstract projects of Build.tla to
files on disk, running the ucg binary on them, projecting what happened back to
the abstract level (per-file outcome, diagnostic class, artifacts, assertion log,
trace events).  Orchestration only: every expectation comes out of the REPLAY
line TLC printed."""
import concurrent.futures as cf
import hashlib
import json
import os
import re
import shutil
import subprocess

from . import common as C

FMTS = ["json", "yaml", "yamlmulti", "toml", "xml", "env", "flags", "exec"]   # Build.tla Fmts
EXT_OF = ["json", "yaml", "yaml", "toml", "xml", "env", "txt", "sh"]          # Build.tla ExtOf (published table)

INVARIANTS = ("ResolveRelToFile EvalOnce EvalOrder SameValue CycleIsDiagnostic VerdictIffAsserts ExitIffFail "
              "EachAssertOnce OneArtifact SecondOutIsError AllOrNothing BatchEqualsSolo Emit")

# open findings <-> deviations of Build.tla (the trace specification runs with the
# deviations whose finding is still open, DESIGN §8.1)
DEV_OF_KEY = {
    "C09:import-stack-pushed-after-completion": "PushAfterCompletion",
    "C09:walker-skips-callback-failmsg-moduleout": "WalkerSkips",
    "C09:static-cycle-check-on-unnormalised-paths": "RawPathKeys",
    "C13:assert-collector-shared-across-files": "SharedAsserts",
    "C14:artifact-created-before-conversion": "CreateBeforeConvert",
    "C16:out-lock-shared-between-built-and-imported": "OutLockNeverReset",
}


SIBLINGS = ("C09", "C13", "C14", "C16")


def reporter(pid):
    """A Reporter that also knows the open findings recorded under the sibling properties of
    Build.tla: one defect of the build session (one deviation, one key, one entry in
    known_findings.jsonl) can break several of the four properties."""
    rep = C.Reporter(pid)
    for other in SIBLINGS:
        if other != pid:
            rep.findings += [f for f in C.load_findings(other) if f.get("key") in DEV_OF_KEY]
    return rep


def open_deviations():
    """Deviations whose finding is recorded as open in known_findings.jsonl."""
    devs = set()
    path = os.environ.get("VERIF_FINDINGS") or os.path.join(C.VERIF, "known_findings.jsonl")
    if os.path.exists(path):
        for line in open(path):
            line = line.strip()
            if not line:
                continue
            d = json.loads(line)
            if d.get("status") == "open" and d.get("key") in DEV_OF_KEY:
                devs.add(DEV_OF_KEY[d["key"]])
    return devs


# --------------------------------------------------------------------------
# TLC
# --------------------------------------------------------------------------

def write_cfg(gd, name, base, deviations=(), emit=True, invariants=None):
    """A configuration derived from spec/Build_<base>.cfg with another set of deviations."""
    txt = open(os.path.join(C.SPEC, "Build_%s.cfg" % base)).read()
    devdef = "{" + ", ".join('"%s"' % d for d in sorted(deviations)) + "}"
    txt = re.sub(r"Deviations <- \w+", "Deviations <- GenDevs", txt)
    txt = re.sub(r"EmitOn = \w+", "EmitOn = %s" % ("TRUE" if emit else "FALSE"), txt)
    if invariants is not None:
        txt = re.sub(r"INVARIANTS .*", "INVARIANTS " + invariants, txt)
    with open(os.path.join(gd, name + ".cfg"), "w") as f:
        f.write(txt)
    return devdef


def run_config(gd, base, deviations=(), emit=True, invariants=None, workers=6, timeout=1500, coverage=False):
    """Model-check one configuration; returns the TlcResult (REPLAY lines parsed)."""
    tag = "_".join(sorted(deviations)) or "design"
    name = "G_%s_%s" % (base, tag)
    devdef = write_cfg(gd, name, base, deviations, emit, invariants)
    mod = "MCG_%s" % hashlib.sha1(devdef.encode()).hexdigest()[:8]
    with open(os.path.join(gd, mod + ".tla"), "w") as f:
        f.write("---- MODULE %s ----\nEXTENDS MC_Build\nGenDevs == %s\n====\n" % (mod, devdef))
    return C.run_tlc(mod, name, workers=workers, gendir=gd, timeout=timeout, heap="5g",
                     coverage=coverage, keep_lines=coverage)


def run_design_and_deviations(gd, base, opendevs, timeout=1500):
    """The design (Deviations = {}, all invariants) and, when findings are open, the code as it
    is (those deviations on, emission only), side by side.  -> (design result, deviation result|None)"""
    if not opendevs:
        return run_config(gd, base, timeout=timeout), None
    with cf.ThreadPoolExecutor(max_workers=2) as ex:
        a = ex.submit(run_config, gd, base, (), True, None, 3, timeout)
        b = ex.submit(run_config, gd, base, tuple(sorted(opendevs)), True, "Emit", 3, timeout)
        return a.result(), b.result()


def tla_stmt(s):
    return '[k |-> "%s", tgt |-> %d, sp |-> %d, pos |-> "%s", r |-> "%s"]' % (s["k"], s["tgt"], s["sp"], s["pos"], s["r"])


def tla_body(body):
    return "<< " + ", ".join("<< " + ", ".join(tla_stmt(s) for s in b) + " >>" for b in body) + " >>"


def sampled_cases(gd, tag, nf, bodies_expr, orders_expr, layout_expr, cmd, cwds, repeat, devs, cmds):
    """Larger projects than the exhaustive configurations reach, sampled by TLC itself
    (Randomization!RandomSubset inside bodies_expr / orders_expr): the design is checked on the
    sample (all invariants), and the run with the open deviations gets the very same sample,
    written out as explicit sets.  -> ({case key: case}, {case key: [deviation cases]})"""
    def cfg(name, inv):
        with open(os.path.join(gd, name + ".cfg"), "w") as f:
            f.write("CONSTANTS\n  Deviations <- GenDevs\n  NF = %d\n  Bodies <- SimBodies\n  Layouts <- LaySim\n"
                    "  Cmds <- %s\n  Cwds <- %s\n  Orders <- SimOrders\n  Pres <- PreNone\n  Repeat = %d\n"
                    "  EmitOn = TRUE\nINIT Init\nNEXT Next\nCHECK_DEADLOCK FALSE\nINVARIANTS %s\n"
                    % (nf, cmd, cwds, repeat, inv))

    mod = "MCS_%s" % tag
    with open(os.path.join(gd, mod + ".tla"), "w") as f:
        f.write("---- MODULE %s ----\nEXTENDS MC_Build, Randomization\nGenDevs == {}\nSimBodies == %s\nSimOrders == %s\n"
                "LaySim == %s\n====\n" % (mod, bodies_expr, orders_expr, layout_expr))
    cfg("G_%s_sim_design" % tag, INVARIANTS)
    r = C.run_tlc(mod, "G_%s_sim_design" % tag, workers=6, gendir=gd, timeout=3000, heap="6g")
    cmds.append(r.cmd)
    if r.violation:
        raise C.ToolError("Build.tla (sampled larger projects, Deviations = {}): invariant %s violated\n%s"
                          % (r.violation, r.errtext[:3000]))
    C.require_tlc_ok(r, mod)
    cases = {}
    for c in r.replays:
        cases.setdefault(case_key(c), c)
    C.log("[%s] sampled larger projects: %d cases, %d states, %.0fs" % (tag, len(cases), r.distinct, r.wall))
    devcases = {}
    if devs and cases:
        bodies = sorted({tla_body(c["body"]) for c in cases.values()})
        orders = sorted({"<< " + ", ".join(map(str, c["ord"])) + " >>" for c in cases.values()})
        mod2 = "MCD_%s" % tag
        with open(os.path.join(gd, mod2 + ".tla"), "w") as f:
            f.write("---- MODULE %s ----\nEXTENDS MC_Build\nGenDevs == %s\nSimBodies == {\n%s }\nSimOrders == { %s }\nLaySim == %s\n====\n"
                    % (mod2, "{" + ", ".join('"%s"' % d for d in sorted(devs)) + "}", ",\n".join(bodies), ", ".join(orders), layout_expr))
        cfg("G_%s_sim_dev" % tag, "Emit")
        r2 = C.run_tlc(mod2, "G_%s_sim_dev" % tag, workers=6, gendir=gd, timeout=3000, heap="6g")
        cmds.append(r2.cmd)
        C.require_tlc_ok(r2, mod2)
        for c in r2.replays:
            devcases.setdefault(case_key(c), []).append(c)
    return cases, devcases, r.distinct, r.generated


def case_key(case):
    return json.dumps([case["lay"], case["body"], case["cmd"], case["cwd"], case["ord"], case["pre"]],
                      sort_keys=True)


# --------------------------------------------------------------------------
# rendering
# --------------------------------------------------------------------------

DIRS = {0: "p", 1: "p/s", 2: "q"}


def comp_to_str(c, test):
    return c


class Layout:
    """Concrete paths of one materialised case."""

    def __init__(self, case, root):
        self.case = case
        self.root = root                     # the "/" of Build.tla
        self.nf = case["nf"]
        self.test = case["cmd"] == "test"
        self.suffix = "_test.ucg" if self.test else ".ucg"

    def dir_of(self, f):
        return DIRS[self.case["lay"]["dir"][f - 1]]

    def nm(self, f):
        return self.case["lay"]["nm"][f - 1]

    def ident(self, f):                      # what the file calls itself
        return "%s/%s" % (self.dir_of(f), self.nm(f))

    def rel_file(self, f):
        return "%s/%s%s" % (self.dir_of(f), self.nm(f), self.suffix)

    def abs_file(self, f):
        return os.path.join(self.root, self.rel_file(f))

    def rel_data(self, f):
        return "%s/%s_d.txt" % (self.dir_of(f), self.nm(f))

    def artifact(self, f, ext):
        return "%s/%s%s.%s" % (self.dir_of(f), self.nm(f), "_test" if self.test else "", ext)

    def cwd(self):
        return os.path.join(self.root, DIRS[self.case["cwd"]])

    def arg_for(self, f):
        """Argument naming file f: relative when the file lies under the cwd (so that
        cwd.join(arg) needs no normalisation -- EntryKey of Build.tla), else absolute."""
        cw = DIRS[self.case["cwd"]]
        rel = self.rel_file(f)
        if rel.startswith(cw + "/"):
            return rel[len(cw) + 1:]
        return self.abs_file(f)

    def spell(self, f, s):
        """Spell(lay, f, s) of Build.tla as a string."""
        g = s["tgt"]
        a, b = self.case["lay"]["dir"][f - 1], self.case["lay"]["dir"][g - 1]
        rel = [] if a == b else (["s"] if a == 0 else [".."])
        last = (self.nm(g) + "_d.txt") if s["k"] == "inc" else (self.nm(g) + self.suffix)
        detour = ["s", ".."] if a == 0 else ["..", "s"]
        pre = {0: [], 1: ["."], 2: detour, 3: [".", "."]}[s["sp"]]
        return "/".join(pre + rel + [last])

    def abstract_path(self, concrete):
        """A path string seen in a trace event -> component list of Build.tla."""
        p = concrete
        if p.startswith(self.root):
            p = "/" + p[len(self.root):].lstrip("/")
        comps = [c for c in p.split("/") if c != ""]
        if p.startswith("/"):
            comps = ["/"] + comps
        out = []
        for c in comps:
            if c.endswith(self.suffix):
                c = c[:-len(self.suffix)]
            elif c.endswith("_d.txt"):
                c = c[:-len(".txt")]
            out.append(c)
        return out


MAL_FORMS = [
    'assert idf({{ok = true, mark = "{m}"}});',
    'assert {{desc = "{m}"}};',
    'assert idf("{m}");',
    'assert idf([1, "{m}"]);',
    'assert {{ok = idf("{m}"), desc = "d"}};',
    'assert {{ok = true, desc = idf(["{m}"])}};',
    'assert {{ok = NULL, desc = "{m}"}};',
]


def marker(lay, f, i):
    return "A:%s:%d" % (lay.ident(f), i)


def import_expr(pos, path, i):
    """(statements, expression naming the imported tuple, expression for `tree`)"""
    imp = 'import "%s"' % path
    if pos == "top":
        return ['let i%d = %s;' % (i, imp)], "i%d" % i
    if pos == "nested":
        return ['let i%d = {m = %s};' % (i, imp)], "i%d.m" % i
    if pos == "funcBody":
        return ['let f%d = func (x) => %s;' % (i, imp), 'let i%d = f%d(0);' % (i, i)], "i%d" % i
    if pos == "callback":
        return ['let i%d = reduce(func (acc, x) => %s, NULL, [0]);' % (i, imp)], "i%d" % i
    if pos == "failMsg":
        return ['let i%d = fail "FAILMSG:" + (%s).name;' % (i, imp)], None
    if pos == "moduleBody":
        return ['let m%d = module {} => { let q = %s; };' % (i, imp), 'let i%d = m%d{};' % (i, i)], "i%d.q" % i
    if pos == "moduleOut":
        return ['let m%d = module {} => (%s) { let z = 0; };' % (i, imp), 'let i%d = m%d{};' % (i, i)], "i%d" % i
    if pos == "conAnn":
        # the annotation is an example: the imported file's name (a string) admits any string; nothing is re-exported
        return ['let i%d :: ((%s).name) = "c";' % (i, imp)], None
    if pos == "fmtExpr":
        # inside a format string only text gets out: the imported file's name stands for its tree (FMT_LEAF)
        return ['let i%d = "@{(%s).name}" %% 1;' % (i, imp.replace('"', '\\"'))], "{tree = {name = i%d, kids = [], incs = [], via = \"fmt\"}}" % i
    raise C.ToolError("unknown import position %r" % pos)


def include_expr(pos, path, i):
    inc = 'include str "%s"' % path
    if pos == "top":
        return ['let d%d = %s;' % (i, inc)], "d%d" % i
    if pos == "callback":
        return ['let d%d = reduce(func (acc, x) => %s, NULL, [0]);' % (i, inc)], "d%d" % i
    if pos == "moduleOut":
        return ['let n%d = module {} => (%s) { let z = 0; };' % (i, inc), 'let d%d = n%d{};' % (i, i)], "d%d" % i
    if pos == "failMsg":
        return ['let d%d = fail "FAILMSG:@" %% (%s);' % (i, inc)], None
    if pos == "funcBody":
        return ['let g%d = func (x) => %s;' % (i, inc), 'let d%d = g%d(0);' % (i, i)], "d%d" % i
    if pos == "nested":
        return ['let d%d = {m = %s};' % (i, inc)], "d%d.m" % i
    if pos == "moduleBody":
        return ['let n%d = module {} => { let q = %s; };' % (i, inc), 'let d%d = n%d{};' % (i, i)], "d%d.q" % i
    if pos == "conAnn":
        return ['let d%d :: (%s) = "c";' % (i, inc)], None
    if pos == "fmtExpr":
        return ['let d%d = "@{%s}" %% 1;' % (i, inc.replace('"', '\\"'))], "d%d" % i
    raise C.ToolError("unknown include position %r" % pos)


def render_file(lay, f, rng, out_values=None):
    """Text of file f.  out_values: {stmt index: (fmt name, value text)} for C14; by
    default an out statement writes the tuple of what the file has bound so far."""
    body = lay.case["body"][f - 1]
    lines = ['let name = "%s";' % lay.ident(f), 'TRACE name;', 'let idf = func (x) => x;']
    kids, incs = [], []
    for i, s in enumerate(body, 1):
        k = s["k"]
        if k == "lit":
            lines.append('let v%d = %d;' % (i, i))
        elif k == "imp":
            st, val = import_expr(s["pos"], lay.spell(f, s), i)
            lines += st
            if val:
                kids.append(val + ".tree")
        elif k == "inc":
            st, val = include_expr(s["pos"], lay.spell(f, s), i)
            lines += st
            if val:
                incs.append(val)
        elif k == "assert":
            m = marker(lay, f, i)
            if s["r"] == "ok":
                lines.append('assert {ok = true, desc = "%s"};' % m)
            elif s["r"] == "fail":
                lines.append('assert {ok = false, desc = "%s"};' % m)
            else:
                lines.append(rng.choice(MAL_FORMS).format(m=m))
        elif k == "rterr":
            lines.append('let e%d = fail "RTERR:%s:%d";' % (i, lay.ident(f), i))
        elif k == "tyerr":
            lines.append('let e%d = 1 + "x";' % i)
        elif k == "out":
            if out_values and i in out_values:
                fmt, val = out_values[i]
                lines.append('out %s %s;' % (fmt, val))
            else:
                fmt = FMTS[s["tgt"] - 1]
                if s["r"] == "ok":
                    val = '{name = name, at = "%d", kids = [%s], incs = [%s]}' % (i, ", ".join(kids), ", ".join(incs))
                else:
                    val = {"toml": '{name = name, bad = NULL}', "xml": '[name]', "flags": '[name]',
                           "exec": '[name]'}[fmt]
                lines.append('out %s %s;' % (fmt, val))
        else:
            raise C.ToolError("unknown statement kind %r" % k)
    lines.append('let tree = {name = name, kids = [%s], incs = [%s]};' % (", ".join(kids), ", ".join(incs)))
    return "\n".join(lines) + "\n"


def fmt_leaf(lay, g):
    """what an import inside a format string's @{...} shows of the imported file g: its name"""
    return {"name": lay.ident(g), "kids": [], "incs": [], "via": "fmt"}


def expected_tree(lay, f, upto=None, seen=()):
    """The value `tree` (or the out value at statement `upto`) of file f when every import
    names the file the specification says (tgt) -- the refinement of ResolveRelToFile."""
    body = lay.case["body"][f - 1]
    kids, incs = [], []
    for i, s in enumerate(body, 1):
        if upto is not None and i >= upto:
            break
        if s["k"] == "imp" and s["pos"] == "fmtExpr":
            kids.append(fmt_leaf(lay, s["tgt"]))
        elif s["k"] == "imp" and s["pos"] not in ("failMsg", "conAnn"):
            kids.append(expected_tree(lay, s["tgt"], None, seen + (f,)) if s["tgt"] not in seen + (f,) else None)
        elif s["k"] == "inc" and s["pos"] not in ("failMsg", "conAnn"):
            incs.append("DATA:" + lay.ident(s["tgt"]))
    t = {"name": lay.ident(f), "kids": kids, "incs": incs}
    if upto is not None:
        t["at"] = str(upto)
    return t


def materialise(case, root, rng, out_values=None):
    """Write the project below root; returns the Layout."""
    lay = Layout(case, root)
    for d in DIRS.values():
        os.makedirs(os.path.join(root, d), exist_ok=True)
    for f in range(1, lay.nf + 1):
        with open(lay.abs_file(f), "w") as fh:
            fh.write(render_file(lay, f, rng, out_values if f == 1 else None))
        with open(os.path.join(root, lay.rel_data(f)), "w") as fh:
            fh.write("DATA:" + lay.ident(f))
    for a in case.get("disk0", []):
        with open(os.path.join(root, lay.artifact(a["af"], a["ext"])), "wb") as fh:
            fh.write(PRE_BYTES)
    return lay


PRE_BYTES = b"PRE-EXISTING ARTIFACT\n"


def snapshot(lay):
    """Every file below the root that is not a source/data file: {relative path: bytes}."""
    out = {}
    sources = {lay.rel_file(f) for f in range(1, lay.nf + 1)} | {lay.rel_data(f) for f in range(1, lay.nf + 1)}
    for r, _, fs in os.walk(lay.root):
        for fn in fs:
            p = os.path.join(r, fn)
            rel = os.path.relpath(p, lay.root)
            if rel in sources or rel.startswith("home/") or rel.endswith(".ndjson"):
                continue
            with open(p, "rb") as fh:
                out[rel] = fh.read()
    return out


# --------------------------------------------------------------------------
# running ucg
# --------------------------------------------------------------------------

class Obs:
    def __init__(self, rc, text, crashed, trace):
        self.rc = rc
        self.text = text          # stdout and stderr, interleaved as written
        self.crashed = crashed    # None | "abort" | "panic" | "timeout"
        self.trace = trace        # list of event dicts (hook-enabled binary)


def run_ucg(ucg, args, cwd, home, trace_file=None, timeout=30):
    """`env -i`-style run: only HOME, PATH (and the trace sink) are set."""
    env = {"HOME": home, "PATH": "/usr/bin:/bin"}
    if os.environ.get("VERIF_COVERAGE") and os.environ.get("LLVM_PROFILE_FILE"):      # development aid, see common._cargo_env
        env["LLVM_PROFILE_FILE"] = os.environ["LLVM_PROFILE_FILE"]
    if trace_file:
        env["UCG_VERIF_TRACE"] = trace_file
        if os.path.exists(trace_file):
            os.remove(trace_file)
    os.makedirs(home, exist_ok=True)
    crashed = None
    try:
        p = subprocess.run([ucg] + list(args), cwd=cwd, env=env, stdout=subprocess.PIPE, stderr=subprocess.STDOUT,
                           timeout=timeout)
        rc = p.returncode
        text = p.stdout.decode("utf-8", "replace")
        if rc < 0 or rc == 134:
            crashed = "abort"
        elif rc == 101:
            crashed = "panic"
    except subprocess.TimeoutExpired as e:
        if timeout < 150:
            # a loaded machine is not a hang: the time-out counts only when it reproduces with a generous limit
            return run_ucg(ucg, args, cwd, home, trace_file=trace_file, timeout=180)
        rc = -999
        text = (e.stdout or b"").decode("utf-8", "replace")
        crashed = "timeout"
    trace = []
    if trace_file and os.path.exists(trace_file):
        for line in open(trace_file, errors="replace"):
            line = line.strip()
            if line:
                try:
                    trace.append(json.loads(line))
                except ValueError:
                    pass   # a line cut short by a crash
    return Obs(rc, text, crashed, trace)


INFO_LINES = ("TRACE: ", "Skipping ", "including an empty file")


def classify(msg):
    """Diagnostic class of an error text (the classes of Build.tla)."""
    if "Import cycle detected" in msg:
        return "ImportCycle"
    if "You can only have one output per file" in msg:
        return "TwoOuts"
    if "UserDefined: " in msg:
        return "UserFail"
    if "File name too long" in msg:
        return "NameTooLong"
    if "No such file or directory" in msg or "Path not found" in msg:
        return "NotFound"
    if "Type error:" in msg:
        return "TypeErr"
    # what is left is the free text of a converter (runtime.rs passes the converter's message through):
    # "Nulls are not allowed in Toml Conversions!", "TypeFail: XML outputs must be a Tuple", ...
    return "Convert"


def split_segments(text, keyword, args):
    """Cut the interleaved output at the `Building <arg>` / `Validating <arg>` lines."""
    segs = []
    cur = None
    head = []
    for line in text.split("\n"):
        m = re.match(r"^%s (.*)$" % keyword, line)
        if m and m.group(1) in args:
            cur = {"arg": m.group(1), "lines": []}
            segs.append(cur)
        elif cur is None:
            head.append(line)
        else:
            cur["lines"].append(line)
    return head, segs


def traces_in(lines):
    """identities of the files whose TRACE line appears, in order"""
    out = []
    for ln in lines:
        m = re.match(r'^TRACE: name = "([^"]*)"', ln)
        if m:
            out.append(m.group(1))
    return out


def project_build(obs, lay, args):
    """Observation of `ucg build a b ...` at the abstract level."""
    head, segs = split_segments(obs.text, "Building", set(args))
    files = []
    for sg in segs:
        errl = [ln for ln in sg["lines"] if ln.strip() and not ln.startswith(INFO_LINES)]
        msg = "\n".join(errl)
        files.append({"arg": sg["arg"], "okay": not errl, "cls": classify(msg) if errl else "",
                      "msg": msg[:600], "traces": traces_in(sg["lines"])})
    return {"files": files, "head": [h for h in head if h.strip()], "rc": obs.rc, "crashed": obs.crashed}


def project_test(obs, lay, args):
    """Observation of `ucg test a b ...`: per file the log entries, the verdict line,
    the Err: line, the RESULTS summary."""
    head, segs = split_segments(obs.text, "Validating", set(args))
    files = []
    for sg in segs:
        verdict = None
        summary = None
        err = None
        loglines = []
        state = "log"
        for ln in sg["lines"]:
            m = re.match(r"^File (.*) (Pass|Fail)$", ln)
            if m and m.group(1) == sg["arg"] and state == "log":
                verdict = m.group(2)
                state = "after"
                continue
            if ln.startswith("Err: ") and state == "log":
                err = ln
                state = "err"
                continue
            m = re.match(r"^(.*) - (PASS|FAIL)$", ln)
            if m and m.group(1) == sg["arg"] and state != "log":
                summary = m.group(2)
                continue
            if state == "log":
                loglines.append(ln)
            elif state == "err" and ln.strip() and ln != "RESULTS:":
                err += "\n" + ln
        # log entries: "<n> - OK: ..." / "<n> - NOT OK: ..." possibly continued on further lines
        entries = []
        for ln in loglines:
            m = re.match(r"^(\d+) - (OK|NOT OK): (.*)$", ln)
            if m:
                entries.append({"n": int(m.group(1)), "okay": m.group(2) == "OK", "text": m.group(3)})
            elif entries and not ln.startswith(INFO_LINES):
                entries[-1]["text"] += "\n" + ln
        files.append({"arg": sg["arg"], "verdict": verdict, "summary": summary, "err": err,
                      "cls": classify(err) if err else "", "entries": entries, "traces": traces_in(sg["lines"])})
    return {"files": files, "head": [h for h in head if h.strip()], "rc": obs.rc, "crashed": obs.crashed}


def choose(keys, is_nontrivial, budget, rng):
    """A seeded sample of `budget` keys: non-trivial cases first, but one slot in twenty is kept
    for the trivial ones (empty files, single files ...) so that those stay exercised too."""
    keys = sorted(keys)
    rng.shuffle(keys)
    hard = [k for k in keys if is_nontrivial(k)]
    easy = [k for k in keys if not is_nontrivial(k)]
    n_easy = min(len(easy), max(budget // 20, budget - len(hard)))
    return hard[:budget - n_easy] + easy[:n_easy]


def binding_demo(jobs):
    """Self-check of the binding (BUILD_BINDING_DEMO=prediction): the predicted outcome of ONE case
    is altered before the comparison -- the run must end in a VIOLATION."""
    if os.environ.get("BUILD_BINDING_DEMO") != "prediction" or not jobs:
        return
    # a case on which no open deviation takes effect (otherwise the code's behaviour is a recorded finding)
    clean = [j for j in jobs if not any(dc["fired"] for dc in (j[2] or []))]
    case = clean[len(clean) // 2][1]
    for rnd in case["expect"]:
        for e in rnd["files"]:
            e["okay"] = not e["okay"]
            e["pass"] = not e["pass"]
            e["clss"] = [] if e["okay"] else ["UserFail"]
        rnd["exit"] = 1 - rnd["exit"]
    C.log("[binding demo] altered the prediction of one case")


def require_nonvacuous(tag, counts):
    """Every class of case the check is meant to exercise must occur in the run."""
    missing = sorted(k for k, v in counts.items() if not v)
    if missing:
        raise C.ToolError("%s: vacuous run, no case of: %s (counts %r)" % (tag, ", ".join(missing), counts))
    C.log("[%s] exercised: %s" % (tag, ", ".join("%s=%d" % kv for kv in sorted(counts.items()))))


def pool_map(fn, items, workers=8):
    """Run fn over items on a thread pool (the work is in child processes)."""
    items = list(items)
    if not items:
        return []
    with cf.ThreadPoolExecutor(max_workers=workers) as ex:
        return list(ex.map(fn, items))


def case_dir(base, idx):
    d = os.path.join(base, "c%05d" % idx)
    shutil.rmtree(d, ignore_errors=True)
    os.makedirs(d)
    return d


# --------------------------------------------------------------------------
# trace validation (BuildTrace.tla)
# --------------------------------------------------------------------------

TRACE_EVENTS = {"file_begin", "file_end", "ops_cache", "shape_cache", "static_cycle", "import", "import_done",
                "include", "out_lock", "out_create", "out_done", "assert"}


def abstract_events(lay, events):
    """Hook events of one run -> the records BuildTrace.tla reads (paths as component lists)."""
    out = []
    for e in events:
        ev = e.get("ev")
        if ev not in TRACE_EVENTS:
            continue
        r = {"ev": ev}
        for k in ("path", "norm", "raw"):
            if k in e:
                r[k] = lay.abstract_path(e[k])
        for k in ("hit", "okay", "already", "wellformed"):
            if k in e:
                r[k] = bool(e[k])
        for k in ("idx",):
            if k in e:
                r[k] = int(e[k])
        for k in ("res", "ty"):
            if k in e:
                r[k] = str(e[k])
        out.append(r)
    return out


def is_std_path(p):
    return isinstance(p, str) and (p.startswith("std/") or "/std/" in p)


def reset_record(case):
    """The record that starts one recorded run inside a concatenated trace file."""
    return {"ev": "reset", "proj": {"lay": case["lay"], "body": case["body"], "cmd": case["cmd"],
                                    "cwd": case["cwd"], "ord": case["ord"], "pre": case["pre"]},
            "disk": case.get("disk_now", case.get("disk0", []))}


def validate_traces(gd, runs, nf, deviations, tag, timeout=900):
    """runs: list of (case, abstract event list).  All runs must have nf files.  Returns
    (accepted: bool, info) where info names the first unmatched event."""
    if not runs:
        return True, {"events": 0, "runs": 0}
    path = os.path.join(gd, "trace_%s.ndjson" % tag)
    n = 0
    if os.environ.get("BUILD_BINDING_DEMO") == "trace":
        # self-check: one boolean field of one recorded event is flipped -- the trace must be rejected there
        runs = [(c, [dict(e) for e in evs]) for c, evs in runs]
        victim = [e for _, evs in runs[len(runs) // 2:] for e in evs if any(isinstance(v, bool) for v in e.values())][0]
        k = [k for k, v in victim.items() if isinstance(v, bool)][0]
        victim[k] = not victim[k]
        C.log("[binding demo] flipped %s of one %s event" % (k, victim["ev"]))
    with open(path, "w") as f:
        for case, evs in runs:
            f.write(json.dumps(reset_record(case)) + "\n")
            n += 1
            for e in evs:
                f.write(json.dumps(e) + "\n")
                n += 1
    devdef = "{" + ", ".join('"%s"' % d for d in sorted(deviations)) + "}"
    mod = "MCT_%s" % tag
    with open(os.path.join(gd, mod + ".tla"), "w") as f:
        f.write("---- MODULE %s ----\nEXTENDS BuildTrace\nGenDevs == %s\n====\n" % (mod, devdef))
    with open(os.path.join(gd, mod + ".cfg"), "w") as f:
        f.write("CONSTANTS\n  Deviations <- GenDevs\n  NF = %d\n  Bodies <- TBodies\n  Layouts <- TLayouts\n"
                "  Cmds <- TCmds\n  Cwds <- TCwds\n  Orders <- TOrders\n  Pres <- TPres\n  Repeat = 1\n  EmitOn = FALSE\n"
                "INIT TInit\nNEXT TNext\nCHECK_DEADLOCK FALSE\nINVARIANTS TProgress\nPOSTCONDITION TraceAccepted\n" % nf)
    r = C.run_tlc(mod, mod, workers=1, gendir=gd, timeout=timeout, dfs=True, keep_lines=True,
                  env_extra={"TRACE": path}, heap="4g")
    info = {"events": n, "runs": len(runs), "cmd": r.cmd, "states": r.distinct or r.generated}
    rej = [i for i, ln in enumerate(r.lines) if "TRACE-REJECTED" in ln]
    accepted = any("TRACE-ACCEPTED" in ln for ln in r.lines)
    if accepted and not rej:
        return True, info
    if rej:
        msg = " ".join(x.strip() for x in r.lines[rej[0]:rej[0] + 14])
        info["rejected"] = msg[:2500]
        m = re.search(r"at event\",\s*(\d+)", msg)
        if m:
            # show the recorded execution the event belongs to
            k = int(m.group(1))
            recs = open(path).read().split("\n")
            start = max(i for i in range(min(k, len(recs))) if '"ev": "reset"' in recs[i])
            info["execution"] = recs[start:min(k + 2, len(recs))][:60]
        return False, info
    raise C.ToolError("trace validation did not finish (%s): %s\n%s" % (tag, r.errtext[:3000], "\n".join(r.lines[-30:])))
