"""C02 — operator chains group by the published precedence table.

Precedence.tla is model-checked (the transcribed climber equals the grouping the
published table defines) and every chain TLC explores is replayed into
ucglib::parse::parse: the Binary{kind,left,right} shape must be the tree the
specification predicts, plainly rendered, fully parenthesised along the
reference, and with contrary parentheses."""
import os
import random
import re
import time

from . import common as C

PID = "C02"
SPELL = {"eq": "==", "ne": "!=", "ge": ">=", "le": "<=", "lt": "<", "gt": ">", "re": "~",
         "nre": "!~", "in": "in", "is": "is", "add": "+", "sub": "-", "mul": "*", "div": "/",
         "mod": "%%", "and": "&&", "or": "||", "dot": "."}
ORDER = ["eq", "ne", "ge", "le", "lt", "gt", "re", "nre", "in", "is", "add", "sub", "mul", "div",
         "mod", "and", "or", "dot"]
DOCNAME = {"==": "eq", "!=": "ne", ">=": "ge", "<=": "le", "<": "lt", ">": "gt", "=~": "re",
           "~": "re", "!~": "nre", "in": "in", "is": "is", "+": "add", "-": "sub", "*": "mul",
           "/": "div", "%%": "mod", "&&": "and", "||": "or", ".": "dot"}

# self-delimiting compound operands (DESIGN §5/C02); {n} is a fresh number
COMPOUND = ['f{n}(a, 1)', '{{a = {n}}}', '[{n}, 2]', 'int(v{n})', 'select (k{n}, 1) => {{a = 2}}',
            'map(g{n}, l)', 'filter(g{n}, l)', 'reduce(g{n}, 0, l)', '"@-@" % (1, {n})', '1:{n}',
            '"s{n}"', 't{n}{{b = 1}}', 'str(2)', 'NULL', 'true', '0:2:{n}', '{n}.5',
            'module {{a = 1}} => (a) {{ let z = {n}; }}', 'func (p) => p + {n}', 'not v{n}',
            'import "lib{n}.ucg"', 'include str "f{n}.txt"', 'convert json v{n}', 'fail "m{n}"',
            'TRACE v{n}']
# forms that take the rest of the chain by definition (don't-care of C02) may only be last
GREEDY = ('func ', 'not ', 'convert ', 'fail ', 'TRACE ')
AFTER_DOT = ['y{n}', '"q{n}"']


def doc_levels():
    """The published table, parsed from the reference."""
    path = os.path.join(C.REPO, "docsite/site/content/reference/expressions.md")
    txt = open(path, encoding="utf-8").read()
    m = re.search(r"\*\*Precedence table\*\*(.*?)</table>", txt, re.S)
    if not m:
        raise C.ToolError("precedence table not found in expressions.md")
    lv = {}
    for op, n in re.findall(r"<tr><td>(.*?)</td><td>(\d+)</td>", m.group(1)):
        op = op.replace("&gt;", ">").replace("&lt;", "<").replace("&amp;", "&").strip()
        if op not in DOCNAME:
            raise C.ToolError("unknown operator %r in the published table" % op)
        lv[DOCNAME[op]] = int(n)
    missing = [o for o in ORDER if o not in lv]
    if missing:
        raise C.ToolError("published table lacks %r" % missing)
    return [lv[o] for o in ORDER]


# ---- rendering and expected AST ------------------------------------------

class Namer:
    def __init__(self, rng, compound):
        self.n = 0
        self.rng = rng
        self.compound = compound

    def leaf(self, after_dot, before_dot, last):
        self.n += 1
        if not self.compound or self.rng.random() < 0.5:
            return "x%d" % self.n
        if after_dot:
            return self.rng.choice(AFTER_DOT).format(n=self.n)
        for _ in range(20):
            t = self.rng.choice(COMPOUND)
            if t.startswith(GREEDY) and not last:
                continue
            if before_dot and (t[0].isdigit() or t.startswith('{n}')):
                continue   # `1.x` / `1:2.x` would lex as a float
            return t.format(n=self.n)
        return "x%d" % self.n


def render_chain(ch, nm, last=True):
    """-> (text, [operand texts in order, groups nested])"""
    parts = []
    ops = ch["ops"]
    for j, x in enumerate(ch["xs"]):
        is_last = last and j == len(ch["xs"]) - 1
        if x["k"] == "grp":
            t = "(" + render_chain(x["ch"], nm, True) + ")"
        else:
            t = nm.leaf(j > 0 and ops[j - 1] == "dot", j < len(ops) and ops[j] == "dot", is_last)
        x["_text"] = t
        parts.append(t)
        if j < len(ops):
            parts.append(SPELL[ops[j]])
    return " ".join(parts)


def expected_ast(tree, ch, it=None):
    """Spec tree (leaves in operand order) -> ('bin', op, l, r) / ('grp', t) / ('leaf', text)."""
    it = it if it is not None else iter(ch["xs"])
    k = tree["k"]
    if k == "bin":
        l = expected_ast(tree["l"], ch, it)
        r = expected_ast(tree["r"], ch, it)
        return ("bin", tree["op"], l, r)
    x = next(it)
    if k == "grp":
        assert x["k"] == "grp"
        return ("grp", expected_ast(tree["t"], x["ch"]))
    return ("leaf", x["_text"])


def paren_text(t, top=True):
    if t[0] == "leaf":
        return t[1]
    if t[0] == "grp":
        return "(" + paren_text(t[1], True) + ")"
    s = "%s %s %s" % (paren_text(t[2], False), SPELL[t[1]], paren_text(t[3], False))
    return s if top else "(" + s + ")"


def paren_expect(t, top=True):
    """What a fully parenthesised rendering must parse to: every inner node grouped."""
    if t[0] == "leaf":
        return t
    if t[0] == "grp":
        return ("grp", paren_expect(t[1], True))
    n = ("bin", t[1], paren_expect(t[2], False), paren_expect(t[3], False))
    return n if top else ("grp", n)


def leaning(ops, leaves, left):
    t = None
    if left:
        t = ("leaf", leaves[0])
        for o, x in zip(ops, leaves[1:]):
            t = ("bin", o, t, ("leaf", x))
    else:
        t = ("leaf", leaves[-1])
        for o, x in zip(reversed(ops), reversed(leaves[:-1])):
            t = ("bin", o, ("leaf", x), t)
    return t


def same(exp, ast, leaf_asts):
    """Compare an expected shape with the harness AST json."""
    if exp[0] == "bin":
        return (ast.get("e") == "bin" and ast.get("op") == exp[1]
                and same(exp[2], ast["l"], leaf_asts) and same(exp[3], ast["r"], leaf_asts))
    if exp[0] == "grp":
        return ast.get("e") == "grp" and same(exp[1], ast["x"], leaf_asts)
    want = leaf_asts.get(exp[1])
    if want is None:
        return ast == {"e": "sym", "nm": exp[1]}
    return ast == want


def _parse_expr(h, text):
    r = h.req({"op": "parse", "src": text + ";"})
    return r


def work(h, cases):
    """Runs in a worker process: list of (chain, tree, compound?, seed, variants?)."""
    out = []
    prepared = []
    leaf_texts = {}
    for case in cases:
        ch, tree, compound, sd, variants = case
        rng = random.Random(sd)
        nm = Namer(rng, compound)
        text = render_chain(ch, nm)
        exp = expected_ast(tree, ch)
        texts = [("plain", text, exp)]
        if variants and all(x["k"] == "leaf" for x in ch["xs"]) and len(ch["ops"]) >= 2:
            texts.append(("ref-parens", paren_text(exp), paren_expect(exp)))
            leaves = [x["_text"] for x in ch["xs"]]
            contrary = leaning(ch["ops"], leaves, True)
            if contrary == exp:
                contrary = leaning(ch["ops"], leaves, False)
            texts.append(("contrary-parens", paren_text(contrary), paren_expect(contrary)))
        if compound:
            def collect(c):
                for x in c["xs"]:
                    if x["k"] == "grp":
                        collect(x["ch"])
                    elif not re.fullmatch(r"x\d+", x["_text"]):
                        leaf_texts[x["_text"]] = None
            collect(ch)
        prepared.append((ch, texts, text))
    keys = list(leaf_texts)
    for t, r in zip(keys, h.batch([{"op": "parse", "src": t + ";"} for t in keys])):
        if not r.get("ok"):
            raise C.ToolError("operand %r does not parse alone: %r" % (t, r))
        leaf_texts[t] = r["stmts"][0]["x"]
    reqs = [{"op": "parse", "src": t + ";"} for _, texts, _ in prepared for _, t, _ in texts]
    resps = iter(h.batch(reqs))
    for ch, texts, text in prepared:
        for kind, t, e in texts:
            r = next(resps)
            bad = None
            if "crash" in r:
                bad = {"obs": r}
            elif not r.get("ok"):
                bad = {"obs": r.get("err")}
            else:
                st = r["stmts"]
                if len(st) != 1 or st[0].get("s") != "expr" or not same(e, st[0]["x"], leaf_texts):
                    bad = {"obs": st}
            if bad is not None:
                bad.update({"variant": kind, "text": t, "expected": e, "chain_ops": ch["ops"]})
                out.append(("bad", bad))
        out.append(("n", len(texts), len(ch["ops"]), text))
    return out


def strip(ch):
    return {"ops": ch["ops"], "xs": [{"k": "grp", "ch": strip(x["ch"])} if x["k"] == "grp"
                                    else {"k": "leaf"} for x in ch["xs"]]}


def tup(x):
    return tuple(tup(y) for y in x) if isinstance(x, list) else x


def do_replay(hp, path):
    import json
    case = json.load(open(path))["case"]
    h = C.Harness(hp)
    r = h.req({"op": "parse", "src": case["text"] + ";"})
    h.close()
    ok = r.get("ok") and len(r["stmts"]) == 1 and same(tup(case["expected"]), r["stmts"][0]["x"], {})
    print("replay %s: %s" % (path, "agrees with the specification" if ok else "DISAGREES"))
    if not ok:
        print("VIOLATION property=%s replay=%s" % (PID, path))
    return 0 if ok else 1


def main(tier, replay=None):
    t0 = time.time()
    rep = C.Reporter(PID)
    hp = C.ensure_harness()
    if replay:
        return do_replay(hp, replay)
    lv = doc_levels()
    gd = C.gen_dir("c02")
    with open(os.path.join(gd, "MC_Precedence.tla"), "w") as f:
        f.write("---- MODULE MC_Precedence ----\nEXTENDS Precedence\nDocLvl == << %s >>\n====\n"
                % ", ".join(map(str, lv)))

    def cfg(name, mo, md, mt, reps="AllOps"):
        with open(os.path.join(gd, name + ".cfg"), "w") as f:
            f.write("CONSTANTS Lvl <- DocLvl MaxOps = %d MaxDepth = %d MaxTotal = %d Reps <- %s\n"
                    "INIT Init\nNEXT Next\nCHECK_DEADLOCK FALSE\n"
                    "INVARIANTS AlgEqualsRef RefKeepsOrder Emit\n" % (mo, md, mt, reps))
        return name

    runs = []
    if tier == "quick":
        runs.append(("mc", cfg("flat", 4, 1, 4), None, None, "exhaustive: all chains of 1..4 operators"))
        runs.append(("mc", cfg("grp", 3, 2, 3), None, None, "exhaustive: <=3 operators with one level of parentheses"))
        runs.append(("mc", cfg("lvl", 6, 1, 6, "OnePerLevel"), None, None,
                     "exhaustive: all chains of 1..6 operators over one operator per published level"))
        runs.append(("sim", cfg("sim", 10, 3, 10), 300, 60, "simulation: chains <=10 operators, parentheses depth <=3"))
    else:
        runs.append(("mc", cfg("lvl", 7, 1, 7, "OnePerLevel"), None, None,
                     "exhaustive: all chains of 1..7 operators over one operator per published level"))
        runs.append(("mc", cfg("flat", 5, 1, 5), None, None, "exhaustive: all chains of 1..5 operators"))
        runs.append(("mc", cfg("grp", 3, 2, 4), None, None, "exhaustive: <=4 operators, <=3 per sub-chain, one level of parentheses"))
        runs.append(("sim", cfg("sim", 10, 3, 10), 6000, 60, "simulation: chains <=10 operators, parentheses depth <=3"))

    states = trans = 0
    cmds = []
    exhaustive = True
    model_violation = None
    sd = C.seed()
    evals = 0
    nontriv = set()
    samples = []
    ncases = [0]

    def consume(res):
        nonlocal evals
        for x in res:
            if x[0] == "bad":
                rep.disagree(x[1], key=None)
            else:
                evals += x[1]
                if x[2] >= 2:
                    nontriv.add(hash(x[3]))
                if len(samples) < 5 and x[2] >= 3 and (len(samples) < 2 or "(" in x[3]):
                    samples.append(x[3])

    for kind, name, num, depth, what in runs:
        # cases are replayed in batches while TLC runs (bounded memory: the thorough tier explores millions of chains)
        seen = set()
        buf = []
        count = [0]

        def flush():
            cases, buf[:] = list(buf), []
            if cases:
                consume(C.proc_map(hp, work, cases, chunk=400))

        def on_case(o, kind=kind):
            key = hash(repr(o["chain"]))
            if key in seen:
                return
            seen.add(key)
            i = count[0]
            count[0] += 1
            if kind == "sim":
                buf.append((o["chain"], o["tree"], False, sd * 1000003 + i, False))
                buf.append((o["chain"], o["tree"], True, sd * 1000003 + i, False))
            else:
                buf.append((o["chain"], o["tree"], False, sd * 1000003 + i, True))
            if len(buf) >= 40000:
                flush()

        r = C.run_tlc("MC_Precedence", name, workers=8, simulate=num, depth=depth, gendir=gd,
                      timeout=3000 if tier == "quick" else 14400,      # TLC's clock includes the replay of what it emits
                      heap="8g", on_replay=on_case)
        cmds.append(r.cmd)
        if r.violation:
            model_violation = (r.violation, what, r.errtext[:3000])
            break
        C.require_tlc_ok(r, what)
        flush()
        states += r.distinct or r.generated
        trans += r.generated
        ncases[0] += count[0]
        C.log("[c02] %s: %d states, %d cases, %.0fs" % (what, r.distinct or r.generated, count[0], r.wall))

    if model_violation:
        # DESIGN §3.7(4): a model-internal disagreement is not by itself a verdict.
        raise C.ToolError("Precedence.tla: %s violated in %s — the transcription of the climber and the "
                          "published table disagree in the model; inspect before trusting replay.\n%s"
                          % model_violation)

    # "The grouping depends only on the operators, never on what the operands are": the chains above have names as
    # operands; two integer operands around a dot are the one operand pair the parser treats differently
    hq = C.Harness(hp)
    try:
        for text in ("x . 1 . 0;", "x.1.0;", "x . 1 . 0 . y;"):
            r = hq.req({"op": "parse", "src": text})
            evals += 1
            st = r.get("stmts") or []
            ok = (r.get("ok") and len(st) == 1 and st[0]["x"].get("e") == "bin" and st[0]["x"]["op"] == "dot"
                  and (text.endswith("y;") or (st[0]["x"]["r"].get("e") == "lit" and st[0]["x"]["r"]["val"].get("t") == "int"
                                               and st[0]["x"]["l"].get("e") == "bin")))
            if text.endswith("y;"):
                ok = ok and st[0]["x"]["l"].get("e") == "bin" and st[0]["x"]["l"]["l"].get("e") == "bin"
            if not ok:
                rep.disagree({"leg": "integer-operands", "text": text, "expected": "((x . 1) . 0): two level-6 operators group from the left",
                              "observed": str(st)[:600]}, key="integer-selectors-are-read-as-one-float")
    finally:
        hq.close()
    code = rep.finish()
    C.write_evidence(PID, tier, "model_checking", {
        "states": states, "transitions": trans,
        "traces_validated_against_impl": evals,
        "evaluations": evals,
        "distinct_nontrivial": len(nontriv),
        "rule": "every chain TLC explores is rendered (plain; flat chains also fully parenthesised along the "
                "reference and with contrary parentheses; simulated chains also with compound operands) and "
                "parsed by ucglib::parse::parse; non-trivial = distinct rendered chain with >= 2 operators",
        "samples": samples,
        "exhaustive": tier in ("quick", "thorough"),
        "exhaustive_note": "the flat and one-level-parenthesised configurations are complete enumerations; "
                           "the simulation configuration samples",
        "checker_cmd": " ; ".join(cmds),
        "published_table": dict(zip(ORDER, lv)),
        "configs": [w for _, _, _, _, w in runs],
        "trusted_base": ["TLC 1.8.0", "vp/c02.py renderer and tree comparison",
                         "harness AST projection (harness/src/proj.rs)"],
    }, time.time() - t0, violations=len(rep.violations),
        assumptions=["operands are symbols x<i> or self-delimiting compound forms; greedy prefix forms "
                     "(func, not, convert, fail, TRACE) only as the last operand (don't-care of C02)"])
    return code
