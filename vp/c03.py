"""C03 — JSON, YAML and TOML output decodes back to the value that was output.

DataModel.tla is model-checked (ToDoc total, error iff unrepresentable, RoundTrip,
the transcribed converters agree with the reference when no deviation is on) and
every value tree TLC explores is replayed into the real converters, through

  direct   ConverterRegistry::get_converter(fmt).convert(Val)   (harness `convert`;
           reaches non-finite floats and constraint values),
  program  `let v = <expr>; let s = convert <fmt> v; out <fmt> v;` evaluated by
           FileBuilder::eval_string (harness `eval`), for values with a literal form,
  binary   `ucg build f.ucg` with `out <fmt> <expr>;` for a sample (artifact file).

The bytes are decoded by independent decoders (Python json strict, PyYAML's
pure-Python parser with the YAML 1.2 core schema, tomllib) and compared with the
document(s) the specification predicts."""
import base64
import json
import os
import shutil
import subprocess
import time
from decimal import Decimal

from . import common as C
from . import datamodel as D

PID = "C03"
FORMATS = ["json", "yaml", "yamlmulti", "toml"]
RESERVED = {"let", "module", "func", "out", "assert", "self", "import", "include", "as", "map",
            "filter", "convert", "fail", "NULL", "in", "is", "TRACE", "not", "select", "reduce",
            "true", "false", "env", "mod", "constraint"}

# ---- rendering a concrete value as a ucg expression --------------------------


def render_str(s):
    out = ['"']
    for ch in s:
        if ch == "\\":
            out.append("\\\\")
        elif ch == '"':
            out.append('\\"')
        else:
            out.append(ch)
    out.append('"')
    return "".join(out)


def render_expr(v):
    """Val json -> ucg expression text, or None when the value has no expression form."""
    t = v["t"]
    if t == "null":
        return "NULL"
    if t == "bool":
        return "true" if v["b"] else "false"
    if t == "int":
        i = v["i"]
        if i >= 0:
            return str(i)
        if i == D.I64_MIN:
            return "(0 - %d - 1)" % D.I64_MAX
        return "(0 - %d)" % (-i)
    if t == "float":
        x = D.bits_to_float(v["bits"])
        if x != x or x in (float("inf"), float("-inf")):
            return None
        txt = format(Decimal(abs(x)), "f")
        if "." not in txt:
            txt += ".0"
        if str(x).startswith("-"):
            return "(0.0 - %s)" % txt
        return txt
    if t == "str":
        return render_str(v["s"])
    if t == "list":
        xs = [render_expr(e) for e in v["es"]]
        if any(x is None for x in xs):
            return None
        return "[" + ", ".join(xs) + "]"
    if t == "tuple":
        parts = []
        for f in v["fs"]:
            x = render_expr(f["val"])
            if x is None:
                return None
            nm = f["nm"]
            import re
            if re.fullmatch(r"[a-z][a-z0-9_]*", nm) and nm not in RESERVED:
                k = nm
            else:
                k = render_str(nm)
            parts.append("%s = %s" % (k, x))
        return "{" + ", ".join(parts) + "}"
    return None   # constraint values: built directly only


class OverrideRefiner:
    """The program route outputs the value the literal actually evaluated to.  Where
    that differs from the intended member (the tokenizer's byte-wise treatment of
    non-ASCII text, C11; `0.0 - 0.0` is +0.0) the observed leaf replaces the member --
    sound because DataModel.tla uses no property of those classes beyond the ones
    checked in overrides_from()."""

    def __init__(self, base, ov):
        self.base = base
        self.ov = ov
        self.seed = base.seed
        self.cid = base.cid

    def int_(self, ic, path):
        return self.ov.get(("i", path), None) if ("i", path) in self.ov else self.base.int_(ic, path)

    def float_(self, fc, path):
        return self.ov[("f", path)] if ("f", path) in self.ov else self.base.float_(fc, path)

    def str_(self, sc, path):
        return self.ov[("s", path)] if ("s", path) in self.ov else self.base.str_(sc, path)

    def key(self, kc, path):
        return self.ov[("k", path)] if ("k", path) in self.ov else self.base.key(kc, path)


def overrides_from(abstract, intended, observed, path=(), ov=None):
    """Walk the abstract value, the intended and the observed Val in parallel.
    -> dict of overrides, or None when the observed value is not a refinement of the
    abstract one (then the case is skipped on this route)."""
    ov = {} if ov is None else ov
    t = abstract["t"]
    if observed.get("t") != intended["t"]:
        return None
    if t in ("null",):
        return ov
    if t == "bool":
        return ov if observed["b"] == intended["b"] else None
    if t == "int":
        return ov if observed["i"] == intended["i"] else None
    if t == "float":
        if observed["bits"] != intended["bits"]:
            a, b = D.bits_to_float(intended["bits"]), D.bits_to_float(observed["bits"])
            if not (a == b):          # only the sign of zero may differ
                return None
            ov[("f", path)] = b
        return ov
    if t == "str":
        if observed["s"] != intended["s"]:
            if abstract["sc"] in ("blankend", "ovf", "empty"):
                return None
            ov[("s", path)] = observed["s"]
        return ov
    if t == "list":
        if len(observed["es"]) != len(intended["es"]):
            return None
        for j, e in enumerate(abstract["es"]):
            if overrides_from(e, intended["es"][j], observed["es"][j], path + (j + 1,), ov) is None:
                return None
        return ov
    if t == "tuple":
        if len(observed["fs"]) != len(intended["fs"]):
            return None
        names = [f["nm"] for f in observed["fs"]]
        if len(set(names)) != len(names):
            return None
        for j, f in enumerate(abstract["fs"]):
            if observed["fs"][j]["nm"] != intended["fs"][j]["nm"]:
                ov[("k", path + (j + 1,))] = observed["fs"][j]["nm"]
            if overrides_from(f["val"], intended["fs"][j]["val"], observed["fs"][j]["val"], path + (j + 1,), ov) is None:
                return None
        return ov
    return None


def val_same(a, b):
    """intended Val json vs Val json observed through the harness (floats by bits)."""
    if a["t"] != b.get("t"):
        return False
    t = a["t"]
    if t == "null":
        return True
    if t == "bool":
        return a["b"] == b["b"]
    if t == "int":
        return a["i"] == b["i"]
    if t == "float":
        return a["bits"] == b["bits"]
    if t == "str":
        return a["s"] == b["s"]
    if t == "list":
        return len(a["es"]) == len(b["es"]) and all(val_same(x, y) for x, y in zip(a["es"], b["es"]))
    if t == "tuple":
        return (len(a["fs"]) == len(b["fs"])
                and all(x["nm"] == y["nm"] and val_same(x["val"], y["val"]) for x, y in zip(a["fs"], b["fs"])))
    return False


# ---- judging one observation -------------------------------------------------

def judge(fmt, exp, dev, rf, obs):
    """obs: ('ok', bytes) | ('error', msg, partial_bytes).
    -> (verdict, info)   verdict in 'pass' | 'dev' | 'bad'"""
    def matches(out):
        k = out["k"]
        if k == "error":
            if obs[0] != "error":
                return "expected an error, got %d bytes of output" % len(obs[1])
            if obs[2] and fmt != "yamlmulti":
                return "error reported after %d bytes of output" % len(obs[2])
            return None
        if k == "any":
            return None
        if k == "okany":
            return None if obs[0] == "ok" else "expected output (deviation), got error"
        if obs[0] == "error":
            return None if out.get("lenient") else "unexpected error: %s" % obs[1][:200]
        try:
            docs = D.decode(fmt, obs[1])
        except D.Undecodable as e:
            return "output is not valid %s: %s" % (fmt, e)
        want = [D.refine_doc(d, rf) for d in out["docs"]]
        if len(docs) != len(want):
            return "expected %d document(s), decoded %d" % (len(want), len(docs))
        for j, (w, o) in enumerate(zip(want, docs)):
            m = D.doc_mismatch(w, o, "$doc%d" % j if len(want) > 1 else "$")
            if m:
                return m
        return None

    why = matches(exp)
    if why is None:
        return "pass", None
    if dev is not None:
        # smallest set of recorded deviations that explains the observation
        for alt in sorted(dev["alts"], key=lambda a: (len(a["keys"]), sorted(a["keys"]))):
            if matches(alt["imp"]) is None:
                return "dev", (sorted(alt["keys"]), why)
    return "bad", why


def obs_of_convert(r):
    if "crash" in r:
        return ("crash", r.get("msg", ""))
    if r.get("ok"):
        return ("ok", base64.b64decode(r["bytes_b64"]))
    return ("error", str(r.get("err")), base64.b64decode(r.get("partial_b64", "")))


def prepare(obj, seed):
    cid = D.case_id(obj["value"])
    rf = D.Refiner(seed, cid)
    val = D.refine_value(obj["value"], rf)
    exp = {e["f"]: e["out"] for e in obj["exp"]}
    dev = {e["f"]: e for e in obj.get("devs", [])}
    return cid, rf, val, exp, dev


def program_formats(cid, n_nodes):
    """which formats take the program route for this case (all for 1/8 of the cases)"""
    if cid % 8 == 0:
        return FORMATS
    return [FORMATS[cid % 4]]


def work(h, chunk):
    """Worker process: list of (replay object, seed, alter) -> result rows."""
    rows = []
    prepared = []
    reqs = []
    for obj, seed, alter in chunk:
        cid, rf, val, exp, dev = prepare(obj, seed)
        if alter:   # binding demo: corrupt one prediction
            exp = json.loads(json.dumps(exp))
            corrupt_prediction(exp)
        expr = render_expr(val)
        plan = []
        for fmt in FORMATS:
            plan.append(("direct", fmt, len(reqs)))
            reqs.append({"op": "convert", "fmt": fmt, "val": val})
        if expr is not None:
            for fmt in program_formats(cid, 0):
                if exp[fmt]["k"] == "error":
                    plan.append(("program-convert", fmt, len(reqs)))
                    reqs.append({"op": "eval", "src": "let v = %s;\nlet s = convert %s v;\n" % (expr, fmt)})
                    plan.append(("program-out", fmt, len(reqs)))
                    reqs.append({"op": "eval", "src": "let v = %s;\nout %s v;\n" % (expr, fmt)})
                else:
                    plan.append(("program", fmt, len(reqs)))
                    reqs.append({"op": "eval", "src": "let v = %s;\nlet s = convert %s v;\nout %s v;\n"
                                 % (expr, fmt, fmt)})
        prepared.append((obj, cid, rf, val, exp, dev, expr, plan))
    resps = h.batch(reqs)
    for obj, cid, rf, val, exp, dev, expr, plan in prepared:
        n_checked = 0
        skipped = 0
        reinterpreted = 0
        for route, fmt, ix in plan:
            r = resps[ix]
            observations = []
            rf_used = rf
            if "crash" in r:
                rows.append(("bad", mk_case(obj, val, fmt, route, exp[fmt], None,
                                            "crash: %s %s" % (r["crash"], r.get("msg", ""))[:300], expr)))
                continue
            if route == "direct":
                observations.append(("direct", obs_of_convert(r)))
            else:
                out = r.get("out", {})
                if out.get("k") == "ok":
                    bound = {f["nm"]: f["val"] for f in out["val"].get("fs", [])}
                    ov = overrides_from(obj["value"], val, bound["v"]) if "v" in bound else None
                    if ov is None:
                        skipped += 1      # the literal did not evaluate to a refinement of the abstract value
                        continue
                    if ov:
                        rf_used = OverrideRefiner(rf, ov)
                        reinterpreted += 1
                    if route in ("program", "program-convert"):
                        s = bound.get("s")
                        if s is None or s.get("t") != "str":
                            observations.append((route + ":convert", ("error", "no string bound", b"")))
                        else:
                            observations.append((route + ":convert", ("ok", s["s"].encode("utf-8"))))
                    if route in ("program", "program-out"):
                        observations.append((route + ":out", ("ok", r.get("stdout", "").encode("utf-8"))))
                else:
                    # the build failed: which statement?  `v` alone must evaluate
                    observations.append((route, ("error", out.get("msg", ""), r.get("stdout", "").encode("utf-8"))))
            for oroute, obs in observations:
                n_checked += 1
                verdict, info = judge(fmt, exp[fmt], dev.get(fmt), rf_used, obs)
                if verdict == "dev":
                    for key in info[0]:
                        rows.append(("dev", key, mk_case(obj, val, fmt, oroute, exp[fmt], obs, info[1], expr)))
                elif verdict == "bad":
                    rows.append(("bad", mk_case(obj, val, fmt, oroute, exp[fmt], obs, info, expr)))
                elif fmt in dev and not (exp[fmt].get("lenient") and obs[0] == "error"):
                    rows.append(("stale", ",".join(sorted(max(dev[fmt]["alts"], key=lambda a: len(a["keys"]))["keys"])),
                                 fmt, oroute.split(":")[0],
                                 json.dumps(val, ensure_ascii=False)[:1500]))
        sample = None
        if cid % 997 == 0:
            r0 = resps[plan[0][2]]
            sample = {"value": val, "expr": expr,
                      "json": obs_text(obs_of_convert(resps[plan[0][2]])),
                      "yaml": obs_text(obs_of_convert(resps[plan[1][2]])),
                      "toml": obs_text(obs_of_convert(resps[plan[3][2]]))}
        rows.append(("n", n_checked, skipped, D.count_nodes(obj["value"]),
                     D.case_id(val), 1 if expr is not None else 0, sample, reinterpreted, D.depth_of(obj["value"])))
    return rows


def obs_text(obs):
    if obs[0] == "ok":
        return obs[1].decode("utf-8", "replace")[:400]
    return "ERROR: " + str(obs[1])[:200]


def mk_case(obj, val, fmt, route, exp, obs, why, expr):
    c = {"abstract": obj, "value": val, "fmt": fmt, "route": route, "why": why,
         "expected": exp["k"], "expr": expr}
    if obs is not None:
        c["observed"] = obs_text(obs)
    return c


def corrupt_prediction(exp):
    """binding demo: change one predicted outcome"""
    for fmt in FORMATS:
        out = exp[fmt]
        if out["k"] == "docs" and out["docs"]:
            d = out["docs"][0]
            if d["d"] == "bool":
                d["b"] = not d["b"]
            elif d["d"] == "arr":
                d["xs"] = d["xs"] + [{"d": "null"}]
            elif d["d"] == "obj":
                d["ms"] = d["ms"][1:]
            elif d["d"] == "null":
                out["docs"][0] = {"d": "bool", "b": False}
            else:
                out["docs"][0] = {"d": "null"}
            return
    exp["json"] = {"k": "docs", "docs": [{"d": "null"}], "lenient": False}


# ---- the ucg binary route ------------------------------------------------------

def binary_route(ucg, cases, seed, rep):
    """`ucg build` on files with one `out` statement; the artifact is decoded."""
    sd = C.scratch_dir("c03bin")
    n = 0
    try:
        home = os.path.join(sd, "home")
        os.makedirs(home)
        env = dict(os.environ)
        env["HOME"] = home
        env.pop("RUST_BACKTRACE", None)
        for i, (obj, fmt) in enumerate(cases):
            cid, rf, val, exp, dev = prepare(obj, seed)
            expr = render_expr(val)
            if expr is None:
                continue
            # the literal must denote the intended value: skip non-ASCII (C11)
            if not all(32 <= ord(ch) <= 126 or ch in "\n\t" for ch in expr):
                continue
            d = os.path.join(sd, "c%d" % i)
            os.makedirs(d)
            with open(os.path.join(d, "f.ucg"), "w", encoding="utf-8") as f:
                f.write("out %s %s;\n" % (fmt, expr))
            p = subprocess.run([ucg, "build", "f.ucg"], cwd=d, env=env, stdout=subprocess.PIPE,
                               stderr=subprocess.PIPE, timeout=60)
            ext = "yaml" if fmt == "yamlmulti" else fmt
            art = os.path.join(d, "f." + ext)
            data = open(art, "rb").read() if os.path.exists(art) else b""
            if p.returncode == 0:
                obs = ("ok", data)
            else:
                # a 0-byte / partial artifact next to a failed build is C14's subject
                obs = ("error", p.stderr.decode("utf-8", "replace")[-300:], b"")
            n += 1
            verdict, info = judge(fmt, exp[fmt], dev.get(fmt), rf, obs)
            if verdict == "dev":
                for key in info[0]:
                    rep.disagree(mk_case(obj, val, fmt, "binary", exp[fmt], obs, info[1], expr), key=key)
            elif verdict == "bad":
                rep.disagree(mk_case(obj, val, fmt, "binary", exp[fmt], obs, info, expr), key=None)
    finally:
        shutil.rmtree(sd, ignore_errors=True)
    return n


# ---- main -----------------------------------------------------------------------

CORE = ["null", "true", "i_pos", "f_f15", "s_plain"]
INVS = ["ExpectWellFormed", "ErrorIffUnrepresentable", "RoundTrip", "ConvAgrees", "ImportAgrees", "IncludeAgrees", "EmitC03"]


def sim_configs(gd, n, traces, nodes, seed, pool, invs, prefix="sim"):
    """TLC's simulator picks uniformly among successor states, so a large leaf pool
    makes nesting improbable.  Each simulation configuration therefore works on a
    small seeded sample of the leaf classes; the union over the configurations (and
    seeds) covers the pool."""
    import random
    rng = random.Random("sim:%d" % seed)
    runs = []
    for k in range(n):
        leaves = rng.sample(pool, 7)
        name = "%s%d" % (prefix, k)
        D.write_cfg(gd, name, 5, 4, nodes, 3, leaves[:3], leaves[3:], invs)
        runs.append(("sim", name, traces, 60,
                     "simulation: trees of <=%d nodes, depth <=5, <=4 children over leaf classes %s + <=3 of %s"
                     % (nodes, leaves[:3], leaves[3:])))
    return runs


def configs(tier, gd):
    rare = [x for x in D.ALL_LEAVES if x not in CORE]
    core2 = ["i_pos", "s_plain"]
    shape_rare = ["null", "elist", "etuple", "s_multi", "f_inf", "con"]
    runs = []
    if tier == "quick":
        D.write_cfg(gd, "mc_leaf", 3, 3, 4, 1, CORE, rare, INVS)
        runs.append(("mc", "mc_leaf", None, None,
                     "exhaustive: trees of <=4 nodes, depth <=3, <=3 children, 5 core leaf classes + "
                     "<=1 of the 27 other leaf classes"))
        D.write_cfg(gd, "mc_shape", 3, 3, 5, 1, core2, shape_rare, INVS)
        runs.append(("mc", "mc_shape", None, None,
                     "exhaustive: trees of <=5 nodes, depth <=3, <=3 children, 2 core leaf classes + "
                     "<=1 of {NULL, [], {}, multi-line string, inf, constraint}"))
        runs += sim_configs(gd, 2, 120, 12, C.seed(), D.ALL_LEAVES, INVS)
    else:
        D.write_cfg(gd, "mc_leaf", 3, 3, 5, 1, CORE, rare, INVS)
        runs.append(("mc", "mc_leaf", None, None,
                     "exhaustive: trees of <=5 nodes, depth <=3, <=3 children, 5 core leaf classes + "
                     "<=1 of the 27 other leaf classes"))
        D.write_cfg(gd, "mc_pair", 3, 3, 4, 2, core2, [x for x in D.ALL_LEAVES if x not in core2], INVS)
        runs.append(("mc", "mc_pair", None, None,
                     "exhaustive: trees of <=4 nodes, depth <=3, 2 core leaf classes + <=2 of the 30 others"))
        D.write_cfg(gd, "mc_shape", 4, 3, 6, 1, core2, shape_rare, INVS)
        runs.append(("mc", "mc_shape", None, None,
                     "exhaustive: trees of <=6 nodes, depth <=4, <=3 children, 2 core leaf classes + "
                     "<=1 of {NULL, [], {}, multi-line string, inf, constraint}"))
        runs += sim_configs(gd, 10, 1500, 14, C.seed(), D.ALL_LEAVES, INVS)
    return runs


def do_replay(hp, path):
    blob = json.load(open(path))
    case = blob["case"]
    h = C.Harness(hp)
    rows = work(h, [(case["abstract"], blob.get("seed", C.seed()), False)])
    h.close()
    bad = [r for r in rows if r[0] == "bad" and r[1]["fmt"] == case["fmt"]]
    dev = [r for r in rows if r[0] == "dev" and r[2]["fmt"] == case["fmt"]]
    ok = not bad and not dev
    print("replay %s: %s" % (path, "agrees with the specification" if ok else "DISAGREES"))
    for r in bad:
        print("  %s %s: %s" % (r[1]["fmt"], r[1]["route"], r[1]["why"]))
    for r in dev:
        print("  %s %s: known deviation %s: %s" % (r[2]["fmt"], r[2]["route"], r[1], r[2]["why"]))
    if not ok:
        print("VIOLATION property=%s replay=%s" % (PID, path))
    return 0 if ok else 1


class SeededReporter(C.Reporter):
    def finish(self):
        # make replay files self-contained: the seed decides the refinement
        self.violations = [(k, dict(c, seed_note="VERIF_SEED=%d" % C.seed())) for k, c in self.violations]
        return super().finish()


def main(tier, replay=None):
    t0 = time.time()
    D.check_tables()
    hp = C.ensure_harness()
    if replay:
        blob = json.load(open(replay))
        m = blob.get("case", {}).get("seed_note", "")
        if m.startswith("VERIF_SEED="):
            os.environ["VERIF_SEED"] = m.split("=")[1]
        return do_replay(hp, replay)
    rep = SeededReporter(PID)
    sd = C.seed()
    gd = C.gen_dir("c03")
    with open(os.path.join(gd, "MC_DataModel.tla"), "w") as f:
        f.write("---- MODULE MC_DataModel ----\nEXTENDS DataModel\n====\n")
    runs = configs(tier, gd)
    alter_demo = os.environ.get("VERIF_C03_ALTER") == "1"

    states = trans = 0
    cmds = []
    seen = set()
    evals = skipped = 0
    nontriv = set()
    with_expr = 0
    samples = []
    devcount = {}
    clusters = {}
    stale = {}
    stale_n = {}
    bydepth = {}
    reinterp = 0
    ncases = [0]
    reservoir = []
    import random as _random
    resrng = _random.Random(sd + 5)

    def consume(rows):
        nonlocal evals, skipped, with_expr, reinterp
        for x in rows:
            if x[0] == "bad":
                rep.disagree(x[1], key=None)
                import re as _re
                sig = x[1]["fmt"] + " " + x[1]["route"].split(":")[0] + ": " + _re.sub(r"[0-9]+", "N", str(x[1]["why"]))[:90]
                clusters.setdefault(sig, []).append(x[1])
            elif x[0] == "dev":
                devcount[x[1]] = devcount.get(x[1], 0) + 1
                rep.disagree(x[2], key=x[1])
            elif x[0] == "stale":
                k = "%s (%s)" % (x[1], x[2])
                stale_n[k] = stale_n.get(k, 0) + 1
                if len(stale.setdefault(k, [])) < 5:
                    stale[k].append(x[4])
            else:
                _, n, sk, nodes, vid, has_expr, sample, reint, dep = x
                bydepth[str(dep)] = bydepth.get(str(dep), 0) + 1
                reinterp += reint
                evals += n
                skipped += sk
                with_expr += has_expr
                if nodes >= 2:
                    nontriv.add(hash(vid))
                if sample and len(samples) < 6:
                    samples.append(sample)

    for kind, name, num, depth, what in runs:
        # value trees are replayed in batches while TLC runs (bounded memory; the thorough tier explores millions)
        buf = []
        cnt = [0, 0]

        def flush():
            items, buf[:] = list(buf), []
            if items:
                consume(C.proc_map(hp, work, items, chunk=250, timeout=30.0))

        def on_case(o):
            cnt[0] += 1
            if "value" not in o:
                return
            key = hash(json.dumps(o["value"], sort_keys=True))
            if key in seen:
                return
            seen.add(key)
            buf.append((o, sd, alter_demo and ncases[0] == 7))
            ncases[0] += 1
            if len(reservoir) < 3000:          # a seeded sample for the binary route
                reservoir.append(o)
            else:
                j = resrng.randrange(ncases[0])
                if j < 3000:
                    reservoir[j] = o
            cnt[1] += 1
            if len(buf) >= 20000:
                flush()

        r = C.run_tlc("MC_DataModel", name, workers=6, simulate=num, depth=depth, gendir=gd,
                      timeout=3000 if tier == "quick" else 14400,      # TLC's clock includes the replay of what it emits
                      heap="6g", on_replay=on_case)
        cmds.append(r.cmd)
        if r.violation:
            raise C.ToolError("DataModel.tla: %s violated in %s — the reference and the transcription of the "
                              "converters disagree inside the model; inspect before trusting replay.\n%s"
                              % (r.violation, what, r.errtext[:3000]))
        C.require_tlc_ok(r, what)
        flush()
        states += r.distinct or r.generated
        trans += r.generated
        C.log("[c03] %s: %d states, %d value trees (%d new), %.0fs" % (what, r.distinct or r.generated,
                                                                   cnt[0], cnt[1], r.wall))
    shutil.rmtree(gd, ignore_errors=True)
    if not ncases[0]:
        raise C.ToolError("TLC emitted no value tree (vacuous run)")

    for sig, cs in sorted(clusters.items(), key=lambda kv: -len(kv[1]))[:40]:
        C.log("[c03] unexplained x%d: %s   e.g. %s -> %r" % (len(cs), sig, json.dumps(cs[0]["value"], ensure_ascii=False)[:200],
                                                     cs[0].get("observed", "")[:120]))
    for k, vs in stale.items():
        C.log("[c03] deviation %s predicted but the property held on %d observation(s), e.g. %s" % (k, stale_n[k], vs[0][:1500]))
    # binary route on a sample (start-up ~0.4 s per process)
    ucg = C.ensure_ucg()
    nbin = 24 if tier == "quick" else 200
    import random
    rng = random.Random(sd)
    pick = [reservoir[rng.randrange(len(reservoir))] for _ in range(nbin * 3)]
    bin_cases = [(o, FORMATS[i % 4]) for i, o in enumerate(pick)]
    n_bin = binary_route(ucg, bin_cases[:nbin * 3], sd, rep) if nbin else 0
    evals += n_bin

    code = rep.finish()
    if not samples:
        samples = [{"value": D.refine_value(reservoir[0]["value"], D.Refiner(sd, 0))}]
    C.write_evidence(PID, tier, "model_checking", {
        "states": states, "transitions": trans,
        "traces_validated_against_impl": evals,
        "evaluations": evals,
        "distinct_nontrivial": len(nontriv),
        "rule": "every value tree TLC explores is refined (seeded member per leaf class), converted by the real "
                "converters for json, yaml, yamlmulti, toml (direct Val route always; program route "
                "`convert`+`out` for values with a literal form; ucg binary for a sample), decoded by an "
                "independent decoder and compared with the document(s) DataModel.tla predicts; one evaluation = "
                "one (value, format, route) observation judged; non-trivial = distinct concrete value with >= 2 nodes",
        "samples": samples,
        "value_trees": ncases[0],
        "value_trees_by_depth": dict(sorted(bydepth.items())),
        "value_trees_with_literal_form": with_expr,
        "program_route_skipped": skipped,
        "program_route_observed_value_substituted": reinterp,
        "deviation_predicted_but_property_held": dict(stale_n),
        "binary_route_runs": n_bin,
        "known_deviation_cases": devcount,
        "exhaustive": False,
        "exhaustive_note": "the mc_* configurations enumerate their bounded tree domain completely; leaf classes are "
                           "sampled (one member per leaf and seed) and the simulation configuration samples",
        "checker_cmd": " ; ".join(cmds),
        "configs": [w for _, _, _, _, w in runs],
        "trusted_base": ["TLC", "vp/datamodel.py refinement tables and document comparison",
                         "Python json (strict), PyYAML pure-Python parser with YAML 1.2 core-schema resolvers, tomllib",
                         "harness Val construction (harness/src/proj.rs val_from_json)"],
    }, time.time() - t0, violations=len(rep.violations),
        assumptions=[
            "tuple keys are unique (a ucg tuple literal merges duplicate names; duplicates built by map() are not generated)",
            "non-finite floats in YAML/TOML may be rejected or written as .inf/.nan / inf/nan (both accepted)",
            "YAML is judged by the YAML 1.2 core schema (what serde_yaml 0.9 writes): strings such as 'yes' or "
            "'2001-01-01' that only a YAML 1.1 reader re-types are not demanded to be quoted",
            "functions/modules (lowered to NULL before conversion) are outside the generated domain",
            "on a predicted ERROR the direct route demands no output bytes except for yamlmulti, whose earlier "
            "documents may already be written (all-or-nothing of artifacts is C14's subject)",
            "program route: the value judged is the one the program bound (`v`); where the literal did not evaluate to the "
            "intended member (non-ASCII text is re-read byte-wise by the tokenizer, C11; `0.0 - 0.0` is +0.0) the observed "
            "leaf is substituted as the member of its class",
        ])
    return code
