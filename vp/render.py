"""AST (the JSON shape Gen.tla emits: names and strings are character arrays,
floats are dyadic {fn,fk}) -> ucg source text, and normal forms for comparing
ASTs and values between the specification and the harness."""
from fractions import Fraction

LEVEL = {"eq": 1, "ne": 1, "ge": 1, "le": 1, "lt": 1, "gt": 1, "re": 1, "nre": 1, "in": 2, "is": 2,
         "add": 3, "sub": 3, "mul": 4, "div": 4, "mod": 4, "and": 5, "or": 5, "dot": 6}
SPELL = {"eq": "==", "ne": "!=", "ge": ">=", "le": "<=", "lt": "<", "gt": ">", "re": "~",
         "nre": "!~", "in": "in", "is": "is", "add": "+", "sub": "-", "mul": "*", "div": "/",
         "mod": "%%", "and": "&&", "or": "||", "dot": "."}


FULL_PARENS = False      # True: every binary operand that is a binary expression is parenthesised


class Unrenderable(Exception):
    pass


def nm(x):
    return "".join(x) if isinstance(x, list) else x


def frac(v):
    return Fraction(v["fn"], 2 ** v["fk"])


def float_text(v):
    f = frac(v)
    if f < 0:
        raise Unrenderable("negative float literal")
    ip = f.numerator // f.denominator
    rest = f - ip
    digits = ""
    while rest:
        rest *= 10
        d = rest.numerator // rest.denominator
        digits += str(d)
        rest -= d
    return "%d.%s" % (ip, digits or "0")


def str_lit(chars):
    out = []
    for c in chars:
        if c == '"':
            out.append('\\"')
        elif c == "\\":
            out.append("\\\\")
        elif c == "\n":
            out.append("\\n")
        elif c == "\t":
            out.append("\\t")
        elif c == "\r":
            out.append("\\r")
        else:
            out.append(c)
    return '"' + "".join(out) + '"'


def lit_text(v):
    t = v["t"]
    if t == "null":
        return "NULL"
    if t == "bool":
        return "true" if v["b"] else "false"
    if t == "int":
        if v["i"] < 0:
            raise Unrenderable("negative int literal")
        return str(v["i"])
    if t == "float":
        return float_text(v)
    if t == "str":
        return str_lit(v["s"])
    raise Unrenderable("literal of type " + t)


ATOMIC = {"lit", "sym", "tuple", "list", "call", "cast", "copy", "fop", "select", "module"}


def operand(e, ind):
    """An expression in operand position: atomic forms as they are, everything
    else parenthesised (parentheses parse as Grouped, which comparisons strip)."""
    t = expr(e, ind)
    if e["e"] in ATOMIC:
        return t
    return "(" + t + ")"


def fields(flds, ind):
    return ", ".join("%s = %s" % (nm(f["nm"]), expr(f["ex"], ind)) for f in flds)


def tpl_escape(chars):
    out = []
    for c in chars:
        if c in "@\\":
            out.append("\\" + c)
        else:
            out.append(c)
    return out


def expr(e, ind=0):
    k = e["e"]
    if k == "lit":
        return lit_text(e["v"])
    if k == "sym":
        return nm(e["nm"])
    if k == "grp":
        return "(" + expr(e["x"], ind) + ")"
    if k == "tuple":
        return "{" + fields(e["flds"], ind) + "}"
    if k == "list":
        return "[" + ", ".join(expr(x, ind) for x in e["xs"]) + "]"
    if k == "not":
        return "not " + operand(e["x"], ind)
    if k == "fail":
        return "fail " + operand(e["x"], ind)
    if k == "trace":
        return "TRACE " + operand(e["x"], ind)
    if k == "cast":
        return "%s(%s)" % (e["ty"], expr(e["x"], ind))
    if k == "call":
        return "%s(%s)" % (nm(e["fn"]), ", ".join(expr(a, ind) for a in e["args"]))
    if k == "copy":
        return "%s{%s}" % (nm(e["sel"]), fields(e["flds"], ind))
    if k == "range":
        def ro(x):
            return expr(x, ind) if x["e"] in ("lit", "sym") else "(" + expr(x, ind) + ")"
        parts = [ro(e["lo"])] + [ro(s) for s in e["step"]] + [ro(e["hi"])]
        return ":".join(parts)
    if k == "func":
        return "func (%s) => %s" % (", ".join(nm(p) for p in e["ps"]), expr(e["body"], ind))
    if k == "select":
        head = expr(e["x"], ind)
        if e["dflt"]:
            head += ", " + expr(e["dflt"][0], ind)
        return "select (%s) => {%s}" % (head, fields(e["flds"], ind))
    if k == "fop":
        args = [expr(e["fn"], ind)] + [expr(a, ind) for a in e["acc"]] + [expr(e["tgt"], ind)]
        return "%s(%s)" % (e["kind"], ", ".join(args))
    if k == "module":
        body = " ".join(stmt(s, ind) for s in e["body"])
        out = "(%s) " % expr(e["out"][0], ind) if e["out"] else ""
        return "module {%s} => %s{ %s }" % (fields(e["ps"], ind), out, body)
    if k == "fmt":
        if e["form"] == "list":
            return "%s %% (%s)" % (str_lit(e["tpl"]), ", ".join(expr(a, ind) for a in e["args"]))
        chars = []
        for p in e["parts"]:
            if p["pk"] == "s":
                chars += tpl_escape(p["s"])
            else:
                t = expr(p["x"], ind)
                if "{" in t or "}" in t:
                    raise Unrenderable("brace inside @{...}")
                chars += ["@", "{"] + list(t) + ["}"]
        arg = expr(e["args"][0], ind)
        if arg.startswith("("):
            raise Unrenderable("single-form argument would start with a parenthesis")
        return "%s %% %s" % (str_lit(chars), arg)
    if k == "bin":
        op = e["op"]
        l, r = e["l"], e["r"]
        if op == "dot":
            if l["e"] in ("sym", "tuple", "list", "call", "copy") or (l["e"] == "bin" and l["op"] == "dot"):
                lt = expr(l, ind)
                if (l["e"] == "bin" and l["r"]["e"] == "lit" and l["r"]["v"]["t"] == "int"
                        and r["e"] == "lit" and r["v"]["t"] == "int"):
                    lt = "(" + lt + ")"      # x.0.1 would lex 0.1 as a float
            else:
                lt = "(" + expr(l, ind) + ")"
            if r["e"] == "sym":
                rt = nm(r["nm"])
            elif r["e"] == "lit" and r["v"]["t"] in ("int", "str"):
                rt = lit_text(r["v"])
            elif r["e"] in ("copy", "call"):
                rt = expr(r, ind)
            else:
                rt = "(" + expr(r, ind) + ")"
            return lt + "." + rt

        def side(x, right):
            if x["e"] == "bin":
                lv = LEVEL[x["op"]]
                if not FULL_PARENS and (lv > LEVEL[op] or (lv == LEVEL[op] and not right)):
                    return expr(x, ind)
                return "(" + expr(x, ind) + ")"
            return operand(x, ind)
        return "%s %s %s" % (side(l, False), SPELL[op], side(r, True))
    raise Unrenderable("expression kind " + k)


def con_arm(a, ind=0):
    if a["a"] == "shape":
        x = a["x"]
        if x["e"] == "bin" and x["op"] != "dot":
            raise Unrenderable("a constraint alternative is a non-operator expression")
        return expr(x, ind)

    def bound(xs):
        if not xs:
            return ""
        x = xs[0]
        return expr(x, ind) if x["e"] in ("lit", "sym") else "(" + expr(x, ind) + ")"
    return "in %s..%s" % (bound(a["lo"]), bound(a["hi"]))


def con_text(c, ind=0):
    """what follows `::` - a constraint expression, or a plain (non-operator) example expression"""
    if c["e"] == "con":
        return " | ".join(con_arm(a, ind) for a in c["arms"])
    if c["e"] == "bin" and c["op"] != "dot":
        raise Unrenderable("an example after :: is a non-operator expression")
    return expr(c, ind)


def stmt(s, ind=0):
    k = s["s"]
    if k == "let":
        return "let %s = %s;" % (nm(s["nm"]), expr(s["x"], ind))
    if k == "clet":
        return "let %s :: %s = %s;" % (nm(s["nm"]), con_text(s["con"], ind), expr(s["x"], ind))
    if k == "cstmt":
        return "constraint %s = %s;" % (nm(s["nm"]), con_text(s["x"], ind))
    if k == "expr":
        return "%s;" % expr(s["x"], ind)
    if k == "assert":
        return "assert %s;" % expr(s["x"], ind)
    if k == "out":
        return "out %s %s;" % (s["fmt"], expr(s["x"], ind))
    raise Unrenderable("statement kind " + k)


def program(prog):
    """One statement per line: line j+1 holds statement j (1-based like Gen's p)."""
    return "\n".join(stmt(s) for s in prog) + "\n"


# ---------------------------------------------------------------------------
# normal forms
# ---------------------------------------------------------------------------

def norm_val_spec(v):
    """Spec value -> comparable python value."""
    t = v["t"]
    if t == "null":
        return ("null",)
    if t in ("func", "module"):
        return ("null",)        # the implementation lowers functions and modules to NULL
    if t == "bool":
        return ("bool", v["b"])
    if t == "int":
        return ("int", v["i"])
    if t == "float":
        return ("float", frac(v))
    if t == "str":
        return ("str", "".join(v["s"]))
    if t == "list":
        return ("list", tuple(norm_val_spec(x) for x in v["es"]))
    if t == "tuple":
        return ("tuple", tuple((nm(f["nm"]), norm_val_spec(f["val"])) for f in v["fs"]))
    if t == "con":
        return ("constraint", tuple(("exact", norm_val_spec(a["v"])) if a["a"] == "exact" else
                                    ("exact", norm_val_spec(a["c"])) if a["a"] == "sub" else
                                    ("irange", tuple(a["lo"]), tuple(a["hi"])) for a in v["arms"]))
    raise ValueError("spec value tag " + t)


def float_from_bits(bits):
    import struct
    return struct.unpack(">d", bytes.fromhex(bits))[0]


def norm_val_impl(v):
    """Harness value -> comparable python value."""
    t = v["t"]
    if t == "null":
        return ("null",)
    if t == "bool":
        return ("bool", v["b"])
    if t == "int":
        return ("int", v["i"])
    if t == "float":
        f = float_from_bits(v["bits"])
        if f != f or f in (float("inf"), float("-inf")):
            return ("float", v["r"])
        return ("float", Fraction(f))
    if t == "str":
        return ("str", v["s"])
    if t == "list":
        return ("list", tuple(norm_val_impl(x) for x in v["es"]))
    if t == "tuple":
        return ("tuple", tuple((f["nm"], norm_val_impl(f["val"])) for f in v["fs"]))
    if t == "constraint":
        def arm(a):
            if a["a"] == "exact":
                return ("exact", norm_val_impl(a["val"]))
            return (a["a"], tuple(a["lo"]) if a["a"] == "irange" else None, tuple(a["hi"]) if a["a"] == "irange" else None)
        return ("constraint", tuple(arm(a) for a in v["arms"]))
    raise ValueError("impl value tag " + t)


def norm_ast_spec(e):
    """Gen AST -> normal form (groups stripped)."""
    k = e.get("e")
    if k is None:
        s = e["s"]
        if s == "let":
            return ("let", nm(e["nm"]), norm_ast_spec(e["x"]))
        if s == "clet":
            return ("clet", nm(e["nm"]), norm_ast_spec(e["x"]), norm_ast_spec(e["con"]))
        if s == "cstmt":
            return ("constraint", nm(e["nm"]), norm_ast_spec(e["x"]))
        return (s, norm_ast_spec(e["x"]))
    if k == "lit":
        return ("lit", norm_val_spec(e["v"]))
    if k == "sym":
        return ("sym", nm(e["nm"]))
    if k == "grp":
        return norm_ast_spec(e["x"])
    if k == "tuple":
        return ("tuple", tuple((nm(f["nm"]), norm_ast_spec(f["ex"])) for f in e["flds"]))
    if k == "list":
        return ("list", tuple(norm_ast_spec(x) for x in e["xs"]))
    if k in ("not", "fail", "trace"):
        return (k, norm_ast_spec(e["x"]))
    if k == "cast":
        return ("cast", e["ty"], norm_ast_spec(e["x"]))
    if k == "call":
        return ("call", ("sym", nm(e["fn"])), tuple(norm_ast_spec(a) for a in e["args"]))
    if k == "copy":
        return ("copy", ("sym", nm(e["sel"])), tuple((nm(f["nm"]), norm_ast_spec(f["ex"])) for f in e["flds"]))
    if k == "range":
        return ("range", norm_ast_spec(e["lo"]), tuple(norm_ast_spec(s) for s in e["step"]), norm_ast_spec(e["hi"]))
    if k == "func":
        return ("func", tuple(nm(p) for p in e["ps"]), norm_ast_spec(e["body"]))
    if k == "select":
        return ("select", norm_ast_spec(e["x"]), tuple(norm_ast_spec(d) for d in e["dflt"]),
                tuple((nm(f["nm"]), norm_ast_spec(f["ex"])) for f in e["flds"]))
    if k == "fop":
        return ("fop", e["kind"], norm_ast_spec(e["fn"]), tuple(norm_ast_spec(a) for a in e["acc"]),
                norm_ast_spec(e["tgt"]))
    if k == "module":
        return ("module", tuple((nm(f["nm"]), norm_ast_spec(f["ex"])) for f in e["ps"]),
                tuple(norm_ast_spec(o) for o in e["out"]), tuple(norm_ast_spec(s) for s in e["body"]))
    if k == "fmt":
        if e["form"] == "list":
            return ("fmt", "list", "".join(e["tpl"]), tuple(norm_ast_spec(a) for a in e["args"]))
        return ("fmt", "single", None, tuple(norm_ast_spec(a) for a in e["args"]))
    if k == "bin":
        return ("bin", e["op"], norm_ast_spec(e["l"]), norm_ast_spec(e["r"]))
    if k == "con":
        return ("con", tuple(("shape", norm_ast_spec(a["x"])) if a["a"] == "shape" else
                             ("range", tuple(norm_ast_spec(x) for x in a["lo"]), tuple(norm_ast_spec(x) for x in a["hi"]))
                             for a in e["arms"]))
    raise ValueError("spec ast kind " + str(k))


def norm_ast_impl(e):
    """Harness AST -> the same normal form."""
    k = e.get("e")
    if k is None:
        s = e["s"]
        if s == "let":
            if e.get("con"):
                return ("clet", e["nm"], norm_ast_impl(e["x"]), norm_ast_impl(e["con"][0]))
            return ("let", e["nm"], norm_ast_impl(e["x"]))
        if s == "constraint":
            return ("constraint", e["nm"], norm_ast_impl(e["x"]))
        return (s, norm_ast_impl(e["x"]))
    if k == "lit":
        return ("lit", norm_val_impl(e["val"]))
    if k == "sym":
        return ("sym", e["nm"])
    if k == "grp":
        return norm_ast_impl(e["x"])
    if k == "tuple":
        return ("tuple", tuple((f["nm"], norm_ast_impl(f["ex"])) for f in e["flds"]))
    if k == "list":
        return ("list", tuple(norm_ast_impl(x) for x in e["xs"]))
    if k in ("not", "fail", "trace"):
        return (k, norm_ast_impl(e["x"]))
    if k == "cast":
        return ("cast", e["ty"], norm_ast_impl(e["x"]))
    if k == "call":
        return ("call", norm_ast_impl(e["fn"]), tuple(norm_ast_impl(a) for a in e["args"]))
    if k == "copy":
        return ("copy", norm_ast_impl(e["sel"]), tuple((f["nm"], norm_ast_impl(f["ex"])) for f in e["flds"]))
    if k == "range":
        return ("range", norm_ast_impl(e["lo"]), tuple(norm_ast_impl(s) for s in e["step"]), norm_ast_impl(e["hi"]))
    if k == "func":
        return ("func", tuple(p["nm"] for p in e["ps"]), norm_ast_impl(e["body"]))
    if k == "select":
        return ("select", norm_ast_impl(e["x"]), tuple(norm_ast_impl(d) for d in e["dflt"]),
                tuple((f["nm"], norm_ast_impl(f["ex"])) for f in e["flds"]))
    if k == "fop":
        return ("fop", e["kind"], norm_ast_impl(e["fn"]), tuple(norm_ast_impl(a) for a in e["acc"]),
                norm_ast_impl(e["tgt"]))
    if k == "module":
        return ("module", tuple((f["nm"], norm_ast_impl(f["ex"])) for f in e["ps"]),
                tuple(norm_ast_impl(o) for o in e["out"]), tuple(norm_ast_impl(s) for s in e["body"]))
    if k == "fmt":
        if e["form"] == "list":
            return ("fmt", "list", e["tpl"], tuple(norm_ast_impl(a) for a in e["args"]))
        return ("fmt", "single", None, tuple(norm_ast_impl(a) for a in e["args"]))
    if k == "bin":
        return ("bin", e["op"], norm_ast_impl(e["l"]), norm_ast_impl(e["r"]))
    if k == "constraint":
        return ("con", tuple(("shape", norm_ast_impl(a["x"])) if a["a"] == "shape" else
                             ("range", tuple(norm_ast_impl(x) for x in a["lo"]), tuple(norm_ast_impl(x) for x in a["hi"]))
                             for a in e["arms"]))
    return ("other", k)
